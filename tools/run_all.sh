#!/bin/sh
# runs every claimed check (quick tier unless TIER is set) and prints one line per property
cd "$(dirname "$0")/.."
for p in $(python3 -c "import json;print(' '.join(c['property_id'] for c in json.load(open('MANIFEST.json'))['checks']))"); do
  s=$(date +%s); out=$(./check $p --tier ${TIER:-quick} 2>&1); rc=$?; e=$(date +%s)
  echo "$p rc=$rc $((e-s))s :: $(echo "$out" | grep -E "^C[0-9]+ (quick|thorough)" | tail -1)"
  echo "$out" | grep -E "VIOLATION|UNCONFIRMED|ENGINE-ERROR|INCONCLUSIVE|MISMATCH|VACUOUS|UNDECIDED" | head -5
done
