#!/usr/bin/env python3
"""Regenerates /verif/MANIFEST.json from the table below (kept in one place so the manifest is always valid)."""
import json, os
V = os.path.dirname(os.path.dirname(os.path.abspath(__file__)))
ESYM = 'bounded symbolic execution of the LLVM IR of the real sources (own executor) with z3 deciding every branch, memory access and assertion; counterexamples replayed natively under ASan/UBSan'
CHECKS = {
 'C15': dict(level='model_checking', design='1/C15',
     text='Every execution path of the real encodeBase64/decodeBase64 code (clang IR of /repo, regenerated each run) is explored for all inputs within the stated length bound; each assertion and memory access is an SMT query over all byte values on that path.',
     note='Bounds: see evidence. Trusted: z3, clang-14 IR semantics as implemented by engine/llsym.py, engine models of malloc/memcpy/strlen; allocation never fails.'),
}
CHECKS['C08'] = dict(level='model_checking', design='1/C08',
     text='All execution paths of the real UTF-8/16/32 converters, count/chars/iteration and case-mapping code are explored for every sequence of 1-3 scalar values and every byte string within the stated lengths (stored flush against the end of their allocation); every assertion and memory access is an SMT query over all values on the path.',
     note='Bounds in evidence. Case tables enter the solver as array constants (one axiom per entry). Trusted: z3, engine IR semantics, engine models of malloc/memcpy/strlen.')
CHECKS['C01'] = dict(level='model_checking', design='1/C01',
     text='Every history of 2 (thorough: 3) Array operations - op kind, indices, counts and element values all symbolic - is executed on the real template code for int, a constructor-counting class and String, through one handle, a shared handle and a clone, against a reference sequence; each path ends with element-lifetime and leak checks; memory safety of every access is decided by the solver.',
     note='Bounds in evidence. Known finding C01-shared-handle-dangles-after-growth is reported as KNOWN-FINDING. Trusted: z3, engine IR semantics and heap model (realloc always moves).')
CHECKS['C02'] = dict(level='model_checking', design='1/C02',
     text='Histories of symbolic operations (set, operator[], remove, has/get, clear, clone) on Map<int,int>, HashMap with 2, 4 and 256 buckets (keys chosen to collide and to cross the growth threshold), Dic/HashDic with prefix-sharing and hash-colliding String keys, and the Set algebra on symbolic element sets built in two orders and table sizes, are executed on the real templates against an association-list model; enumeration, equality and leak checks on every path.',
     note='Bounds in evidence. Trusted: z3, engine IR semantics and heap model.')
CHECKS['C16'] = dict(level='model_checking', design='1/C16',
     text='StreamBuffer operator<< (all scalar overloads, Array<T>, strings) and StreamBufferReader read2/4/8 are executed symbolically for every bit pattern of every scalar type, all three byte orders and a switch at any point, against a shift/mask reference serializer, byte for byte; read-back equality of bit patterns.',
     note='Bounds in evidence (sequence length <= 3). Little-endian target. Trusted: z3, engine IR semantics.')
CHECKS['C03'] = dict(level='model_checking', design='1/C03',
     text='String construction, substring/substr, search, prefix/suffix, comparison, split/join, replace, in-place mutation histories (incl. self-append/self-assignment) and integer<->text conversions are executed symbolically on the real String.cpp/String.h for strings whose lengths straddle the 15/16, 20/24 and 1 KiB boundaries with fully symbolic tail bytes, against byte-array reference functions; length()==strlen after every step; all memory accesses solver-checked.',
     note='Bounds in evidence; integer round trips are decided for every value with <= 4 (thorough 5) digits and near every power of ten / type limit only. printf family = env/vlibc.c mini implementation. Trusted: z3, engine IR semantics.')
CHECKS['C04'] = dict(level='model_checking', design='1/C04',
     text='Histories of symbolic Var operations (assignment between any two of three Vars incl. to own element/property, element and property assignment with auto-creation, append, clone, fresh values of every kind, comparison, removal) are executed on the real Var.cpp against a reference value model with shared containers; every Var is re-read through its accessors after every step; use-after-free, double destruction and leaks are decided on every path.',
     note='Bounds in evidence (1-2 ops, trees of depth <= 2). Doubles are z3 floating-point terms. Trusted: z3, engine IR semantics.')
CHECKS['C05'] = dict(level='model_checking', design='1/C05',
     text='The real XdlEncoder and XdlParser (Xdl.cpp) are executed symbolically on Vars whose ints, booleans, string bytes and key bytes are symbolic, in all four modes: decode(encode(v)) must match a reference value model, and the JSON text must be accepted with the same value by an independent strict RFC 8259 parser executed in the same symbolic run.',
     note='Bounds in evidence. Doubles/floats: only a table of concrete boundary values (libc %.17g/strtod trusted); file write/read clause not covered. Trusted: z3, engine IR semantics.')
CHECKS['C06'] = dict(level='model_checking', design='1/C06',
     text='Json::decode/Xdl::decode and the incremental XdlParser are executed on every byte string up to the stated length and on every sequence of tokens from a JSON/XDL token table (optionally with an arbitrary byte spliced in): no memory error, termination within the step budget, 2-chunk feeding equals whole feeding for every cut, every document accepted by the independent strict parser is accepted with the same value, and every proper prefix of an accepted array/object/string document is rejected.',
     note='Bounds in evidence (raw length <= 2 quick / 3 thorough; <= 3-4 tokens; nesting 512). Trusted: z3, engine IR semantics, libc atof on concrete text.')
CHECKS['C07'] = dict(level='model_checking', design='1/C07',
     text='Xml::decode is executed on every byte string up to the stated length and every sequence of tokens from an XML token table (tags, attributes, references, comments, PIs, DOCTYPE, stray < and &): memory safety, termination, and parent() consistency of the returned tree are decided on every path; XmlCodec::encode followed by decode is checked for structural equality on DOM shapes whose attribute values and text bytes are symbolic.',
     note='Bounds in evidence (depth <= 3). Trusted: z3, engine IR semantics, engine model of __dynamic_cast.')
CHECKS['C20'] = dict(level='proof', design='1/C20', engine='E-REAL',
     technique='symbolic execution of the real matrix templates by operator overloading (term-building scalar, rational functions with cleared denominators), every comparison path enumerated; z3 nlsat decides each QF_NRA identity; counterexamples replayed with the double instantiation',
     text='asl Matrix3_/Matrix4_/Matrix_/Quaternion_ templates are instantiated with a scalar that builds SMT-LIB Real terms, so the formulas are produced by running the real inverse(), det(), operator*, solve()/solve_() (every pivot order = one path with its own path condition) and Matrix4::rotation() (all four branches); z3 proves M*inv(M)=inv(M)*M=I and det=reference determinant (3x3 affine, 4x4), det(AB)=det(A)det(B), A*solve(A,b)=b for n=2,3 (thorough 4), the normal equations for 3x2 (thorough 4x2, 4x3) and unit quaternion -> matrix -> quaternion = +-q, as identities over all reals.',
     note='Only the dimension is bounded. Outside: floating-point residual clause, all conversions through sin/cos/atan2/acos (axis-angle, Euler). Matrix3 products are defined for affine matrices (last row 0 0 1) only, as documented. Trusted: z3 nlsat, engine/symreal.h.')
CHECKS['C12'] = dict(level='model_checking', design='1/C12', engine='E-CBMC + E-SYM',
     technique='cbmc partial-order encoding of all thread interleavings over C translated from the clang IR of the real atomic.h/Mutex.h operators (AtomicCount, Atomic<int>); plus bounded symbolic execution (z3) of sequential copy/assign/drop histories of Array/Map/HashMap/Shared handles',
     text='Interleavings: the IR that atomic.h and Mutex.h compile to for ++/--/+=/-= on a global AtomicCount and Atomic<int> is translated to C and cbmc decides, for every interleaving of 2-3 threads with up to 3 operations each, that the final value is the initial value plus the sum of all operations (each scenario has a reachability witness; counterexamples are confirmed by a native multi-thread stress run). Sequential: every history of copy/assign/drop operations on three handles keeps each payload alive while referenced and destroys it exactly once.',
     note='PARTIAL: the handle protocols under interleavings are NOT decided (cbmc 6.11 rejects concurrent programs that share heap objects through pointers); only their sequential histories are. Sequential consistency assumed. Trusted: cbmc, z3, engine/ll2c_atomic.py.')
CHECKS['C17'] = dict(level='model_checking', design='1/C17',
     text='File::put/write/append/content/firstBytes/read/size, the File stream operators, TextFile::write/text/lines/readLine and BOM decoding are executed symbolically over an in-memory stdio model: every byte content up to the stated size, every text of k filler characters plus symbolic bytes around the 254/255-character fgets chunk edge (LF, CRLF, lone CR, missing final newline), every 1-2 scalar values in UTF-8/UTF-16LE/UTF-16BE BOM files, against reference split/encoders.',
     note='PARTIAL: stdio is the model env/vstdio.c (trusted; native replays use the real libc and real files); real file systems, sizes > 4 KiB and Directory::copy/move are outside. Trusted: z3, engine IR semantics.')
CHECKS['C18'] = dict(level='model_checking', design='1/C18',
     text='IniFile (read, set, write explicitly or on destruction, re-read) is executed symbolically on every INI text of up to 3 (thorough 4) lines drawn from 9 line templates with LF/CRLF and with/without a final newline, with symbolic set() targets and values, against a reference map and a comment-order check on the raw output; TabularDataFile write -> read is checked cell for cell on tables whose cells are symbolically numbers, empty strings or strings over separators, quotes and spaces. All over the in-memory stdio model.',
     note='Bounds in evidence. stdio = env/vstdio.c (trusted; native replays use real files). CSV numbers from a concrete set. Trusted: z3, engine IR semantics.')
CHECKS['C11'] = dict(level='model_checking', design='1/C11',
     text='WebSocket::send and WebSocket::receive (with the real Socket_ read/write loops underneath) are executed symbolically over a system-call-level socket model: send output is deframed by a reference RFC 6455 deframer, receive input is produced by a reference framer (symbolic payload bytes and mask key, both roles, 1-3 fragments cut at every position, a ping in between), for payload lengths at every header-format boundary; hostile headers (every first byte, boundary lengths in the 7/16/64-bit formats incl. bit 31 and bit 63 set) truncated at every offset must yield no memory error and no negative length.',
     note='Bounds in evidence. Sockets = env/vsock.c (trusted). Sender mask key = the library RNG run concretely. Handshake: only the accept-key computation. Trusted: z3, engine IR semantics.')
CHECKS['C09'] = dict(level='model_checking', design='1/C09',
     text='HttpRequest::read (request line, readHeaders, Expect, readBody with Content-Length and chunked framing, target splitting, Url::decode, the ".." filter), Url::Url, Url::decode and HttpServer::serve(Socket) (dispatch, file responses, Range variants) are executed symbolically with the real Socket_ layer over a system-call-level socket model: every request target up to the stated length never yields a path containing ".."; complete requests hand over exactly the method, decoded path, query, case-insensitively addressed headers and body that were sent; the same streams cut at every byte offset terminate without memory errors.',
     note='Bounds in evidence (targets: all bytes to length 2 quick / 3 thorough, 9-symbol alphabet to 4 / 6). Sockets, files and clock are environment models (env/vsock.c, env/vstdio.c, engine clock). Trusted: z3, engine IR semantics.')
CHECKS['C10'] = dict(level='model_checking', design='1/C10',
     text='One complete exchange between the real client (Http::request: connect, request line, headers, body, status line, readHeaders, readBody) and the real server (HttpServer::serve(Socket): HttpRequest::read, dispatch to a handler, HttpResponse write/putFile) is executed symbolically over the socket model: for GET/POST with symbolic body bytes (CR, LF, NUL included), symbolic printable header and query values, and responses sent as byte body, status 201, JSON, file, chunk-framed stream and every file range [b,e] within the bound, the handler observes exactly what was sent and the client observes exactly the status, header and body bytes produced. PARTIAL: one client, no handler threads, bodies of a few bytes.',
     note='Partial claim: framing of small messages in both directions; the concurrency clause (many clients in flight), kept-alive client connections and the 16000/128000-byte block boundaries are outside (see evidence.outside). Sockets, files, resolver and clock are environment models. Trusted: z3, engine IR semantics.')
CHECKS['C13'] = dict(level='model_checking', design='1/C13',
     text='The real Thread.h/Mutex.h code (start/begin/beginf/beginfN trampolines, lambda constructor hand-over and its spin-wait, join, copy/assignment of handles, parallel_for, parallel_invoke, ThreadGroup, Semaphore, Condition) is executed symbolically on a thread model in which every pthread is a coroutine and the schedule is a sequence of recorded decisions at the visible operations (volatile and atomic accesses, pthread/sem calls, thread exit): all interleavings with at most 2 (thorough 3) preemptions are explored for small scenarios, and parallel_for is checked for symbolic i0, i1 and thread count over the stated range on the hand-over schedule; exactly-once counters, finished() after join() and visibility of effects are assertions decided on every path; context lifetime is checked by the memory model.',
     note='Bounded schedules (preemption bound), sequentially consistent memory, no detection of races between plain accesses; pthread primitives are the model (engine/threads_sym.py). Violations are confirmed by running the same harness natively with real threads.')
CHECKS['C14'] = dict(level='model_checking', design='1/C14',
     text='The real SocketServer (bind, start(true), startLoop with Sockets::waitInput/accept, SockClientThread handler threads, sequential mode, stop(true), destructor) and the Socket_ layer are executed symbolically on the thread model over a listening-socket model: for 0-2 (thorough 3) client connections, open or closed early, every interleaving of the accept thread, the handler threads and the controlling thread with a bounded number of preemptions at visible operations (volatile/atomic accesses - the handler counter and the reference counts of Socket handles -, pthread calls, blocking socket calls) is explored; exactly-once serve(), own-token echo, close after serve, quiescence after stop(true), no serve() after it and memory safety through destruction are decided on every path.',
     note='Bounded schedules; plain-bool flags are not treated as visible operations (no data-race detection); sockets and pthread primitives are models. Counterexamples are replayed natively over real loopback TCP with the guarded hook (MANIFEST.hooks) holding threads at the switch point.')
NA = {
 'C19': 'not built yet',
}
ALL = ['C%02d' % i for i in range(1, 21)]
man = {
 'version': 1,
 'setup_cmd': 'python3-vt -m compileall -q engine >/dev/null && python3-vt engine/selftest.py',
 'hooks': {'guard': 'ASL_VERIF', 'enable': '-DASL_VERIF when compiling the native replay build of C14 (spec NATIVE_DEFINES); one hook: asl_verif_sched_point("Thread::begin:after-run") in include/asl/Thread.h, implemented in env/vp_native.cpp (holds the thread when VP_DELAY names the point). The symbolic checks compile /repo sources without the define; all other instrumentation lives in the harness TUs under /verif/harness and the environment models under /verif/env',
           'baseline_off_cmd': 'cmake -S /repo -B /repo/_build -G Ninja -DASL_TESTS=ON >/dev/null && cmake --build /repo/_build >/dev/null && ctest --test-dir /repo/_build -j8 --timeout 900',
           'source_commits': ['8f21d8b'], 'add_only': True},
 'engines': [
   {'name': 'E-REAL', 'path': 'engine/symreal.h', 'serves_properties': ['C20'], 'kind_free_text': 'term-building scalar instantiating the real matrix templates; QF_NRA queries decided by z3'},
   {'name': 'E-SYM', 'path': 'engine/llsym.py', 'serves_properties': sorted(k for k in CHECKS if k != 'C20'), 'kind_free_text': 'path-wise symbolic executor over clang-14 LLVM IR of the real asl sources, z3 back end, native ASan/UBSan replay of counterexamples and sampled path models'},
 ],
 'checks': [], 'not_applicable': [],
 'notes': 'All checks: ./check <id> [--tier quick|thorough]; exit 0 = held within bounds, 1 = VIOLATION (natively replayed), 3 = engine could not decide (never reported as success).',
}
for p in ALL:
    if p in CHECKS:
        c = CHECKS[p]
        man['checks'].append({'property_id': p, 'quick_cmd': './check %s --tier quick' % p, 'thorough_cmd': './check %s --tier thorough' % p,
            'evidence_file': 'evidence/%s.json' % p, 'replay_cmd_template': './check %s --replay {path}' % p, 'engine': c.get('engine', 'E-SYM'),
            'level_claimed': {'category': c['level'], 'text': c['text'], 'design_ref': c['design']}, 'level_note': c['note'], 'technique': c.get('technique', ESYM)})
    else:
        man['not_applicable'].append({'property_id': p, 'reason': NA.get(p, 'check not built yet (work in progress in this session)')})
json.dump(man, open(V + '/MANIFEST.json', 'w'), indent=1)
print('wrote MANIFEST.json: %d checks, %d not_applicable' % (len(man['checks']), len(man['not_applicable'])))
