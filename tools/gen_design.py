#!/usr/bin/env python3
"""Regenerates /verif/DESIGN.md from tools/design_head.md, tools/design_notes.py, the specs, known_findings.json,
MANIFEST.json and seeded/*/meta.json, so that bounds and tables in the document are the ones the checks use."""
import json, os, sys, glob, importlib.util
V = os.path.dirname(os.path.dirname(os.path.abspath(__file__)))
sys.path.insert(0, V + '/tools')
import design_notes as N

props = {}
for l in open(V + '/properties.jsonl'):
    p = json.loads(l); props[p['id']] = p
man = json.load(open(V + '/MANIFEST.json'))
checks = {c['property_id']: c for c in man['checks']}
known = json.load(open(V + '/known_findings.json'))['findings']
seeds = {}
for f in sorted(glob.glob(V + '/seeded/*/meta.json')):
    m = json.load(open(f)); seeds.setdefault(m['property'], []).append(m)


def spec(pid):
    f = V + '/harness/%s/spec.py' % pid
    sp = importlib.util.spec_from_file_location('spec_' + pid, f); m = importlib.util.module_from_spec(sp); sp.loader.exec_module(m)
    return m


out = [open(V + '/tools/design_head.md').read()]
for pid in sorted(props):
    p = props[pid]; c = checks.get(pid)
    out.append('\n### %s %s\n' % (pid, p['title']))
    if not c:
        out.append('Not claimed.\n'); continue
    out.append('*Engine*: %s.  *Level*: %s.\n' % (c['engine'], c['level_claimed']['category']))
    out.append(N.NOTES.get(pid, '') + '\n')
    try:
        s = spec(pid)
        if hasattr(s, 'instances'):
            for tier in ('quick', 'thorough'):
                ins = s.instances(tier); ents = {}
                for i in ins: ents[i['entry']] = ents.get(i['entry'], 0) + 1
                out.append('* %s tier: %d instances (%s)' % (tier, len(ins), ', '.join('%s x%d' % kv for kv in sorted(ents.items()))))
        b = getattr(s, 'BOUNDS', None)
        if b:
            out.append('* bound (quick): ' + b['quick']); out.append('* bound (thorough): ' + b['thorough'])
        for k, lab in (('OUTSIDE', 'outside the claim'), ('ASSUMPTIONS', 'assumptions / stubs')):
            v = getattr(s, k, None)
            if v: out.append('* %s: %s' % (lab, '; '.join(v)))
    except Exception as e:
        out.append('* (spec not importable here: %s)' % e)
    fs = [k for k in known if k['property'] == pid]
    for k in fs:
        out.append('* finding (%s%s): %s' % (k['status'], ' ' + k['commit'] if k.get('commit') else '', k['what']))
    for m in seeds.get(pid, []):
        out.append('* seeded %s: first run %s, now %s' % (m['id'], m.get('first_run_of_quick_check', '?'), m.get('current_status', '?')))
    out.append('')

out.append('''
## 2. Clauses this technique did not reach (stated, not claimed)

| property | clause | why |
|---|---|---|
| C19 | seconds <-> calendar fields bijection, format/parse round trip | bit-precise double arithmetic: z3/cvc5 unknown after 150-600 s on 3-year / 3-day windows; enumeration of days would not be this technique |
| C20 | floating-point residual bound; axis-angle and Euler conversions; solve 4x4, least squares 4x3 | reals instead of doubles; sin/cos/atan2 are not encodable; z3 nlsat > 20 min per pivot path at 4x4 |
| C10 | bodies up to megabytes (beyond 32001 bytes; the 128000-byte send block), more than a handful of symbolic bytes per body, 3-64 concurrent clients | symbolic execution of the whole client+server stack per byte; the 16000-byte receive/file block is crossed with concrete filler and symbolic edge bytes; two clients with 1 preemption is what finishes |
| C12-C14 | data races between plain accesses, weak-memory effects, schedules beyond the preemption bound | the thread model switches only at visible operations and is sequentially consistent |
| C14 | Unix-socket paths, bursts of 200 connections | model has TCP listeners only, 6 connection slots |
| C17 | files beyond 4 KiB (the 65536-byte copy block), Directory operations, real file systems | in-memory stdio model (one 40000-byte and three 4096-byte files) |
| C01-C08, C15, C16, C18 | inputs longer than the stated lengths / histories longer than the stated number of operations | bounded exploration; bounds per property above |

''')

out.append('## 3. Findings\n')
out.append('%d genuine defects were shown against the real code (native ASan/UBSan replay of the engine\'s counterexample); %d are repaired by minimal `fix:` commits in /repo (the 28 unit tests pass after each), %d is recorded as an open known finding.\n' % (len(known), sum(1 for k in known if k['status'] == 'fixed'), sum(1 for k in known if k['status'] != 'fixed')))
out.append('| property | status | commit | what failed |\n|---|---|---|---|')
for k in known:
    out.append('| %s | %s | %s | %s |' % (k['property'], k['status'], k.get('commit', ''), k['what'].replace('|', '/')))

out.append('\n## 4. Seeded changes (independent sub-agents, property text only)\n')
out.append('Each change was produced by a fresh sub-agent that saw only the property text and its own scratch worktree, compiles, passes the 28 unit tests, and fails its own demo; each was confirmed by `tools/confirm_mutants.py` and run through `tools/seedtest.py` (scratch worktree + `VERIF_REPO`, never /repo).  "first run" is the verdict of the quick check as it was when the change arrived; where it was MISSED the check was strengthened (never special-cased to the change) and re-run.\n')
out.append('| id | what (first line) | first run | now | caught by |\n|---|---|---|---|---|')
tot = miss = 0
for pid in sorted(seeds):
    for m in seeds[pid]:
        tot += 1
        w = m['what_and_needs'].strip().split('\n')[0][:150].replace('|', '/')
        cur = m.get('current_status', '?')
        if not cur.startswith('DETECTED'): miss += 1
        out.append('| %s | %s | %s | %s | %s |' % (m['id'], w, m.get('first_run_of_quick_check', '?'), cur.split(' (')[0], m.get('caught_by', '')))
outside = sum(1 for pid in seeds for m in seeds[pid] if 'outside' in m.get('current_status', ''))
out.append('\n%d changes, %d detected by the committed quick checks, %d not detected: %d lie outside the stated claims (calendar arithmetic in doubles, trigonometric conversions, the floating-point residual clause, Unix-socket endpoints) and %d was not decided in the time available (C11-r5m3: the check kept exploring for 45 min and was stopped).  On their first run %d of the %d changes were not reported as violations (MISSED, or flagged by the engine without a native confirmation); every strengthening was a generalisation of the harness (new operation kinds, alphabets, boundary sizes, scenarios), never a special case for the change.\n' % (tot, tot - miss, miss, outside, miss - outside, sum(1 for pid in seeds for m in seeds[pid] if not m.get('first_run_of_quick_check', '').startswith('DETECTED')), tot))

out.append('## 5. False alarms that were corrected (never listed as findings)\n')
out.append('| where | alarm | what was wrong with the check and what was done |\n|---|---|---|')
for a in N.FALSE_ALARMS:
    out.append('| %s | %s | %s |' % a)

out.append('''
## 6. Evidence, layout, trust

* `evidence/<id>.json` (written by every run): tier, bounds, per-instance paths/queries/sat/unsat/unknown/solver seconds,
  functions executed from IR, external functions modelled, assumptions, what lies outside, native validations, violations.
* `engine/` E-SYM (ir.py parser, decode.py pre-decoder, llsym.py executor, builtins_sym.py, threads_sym.py), build.py
  (IR + native builds, object cache under /tmp/vp_cache - only a cache), driver.py (`./check`), symreal.h (E-REAL),
  ll2c_atomic.py (E-CBMC), selftest.py.  `env/` harness primitives and environment models.  `harness/<id>/` harness + spec.
  `seeded/` the 51 confirmed changes (patch, demo, meta).  `tools/` gen_manifest.py, gen_design.py, confirm_mutants.py,
  seedtest.py, run_all.sh.
* Trusted: z3 (and cbmc for the C12 counter scenarios), clang's IR as the meaning of the source, the engine's
  implementation of the IR semantics (validated every run by the differential replays), the environment models.
* Costs (16 cores, one check at a time): quick tier 3-150 s per property, all 20 in about 14 min (`vp check`).  Thorough tier, last
  measured wall times in seconds: C01 700, C02 463, C03 923, C04 175, C05 87, C06 375, C07 212, C08 102, C09 2230,
  C10 222, C11 41, C12 115, C13 435, C14 36, C15 104, C16 33, C17 5, C18 143, C19 103, C20 5.  Every thorough tier was run to
  completion with exit 0 on the tree as committed (C01 with its KNOWN-FINDING line).
''')
open(V + '/DESIGN.md', 'w').write('\n'.join(out))
print('wrote DESIGN.md (%d lines)' % ('\n'.join(out).count('\n') + 1))
