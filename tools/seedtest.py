#!/usr/bin/env python3
"""Runs the quick check of a property against seeded changes in a scratch worktree (VERIF_REPO), never in /repo.
usage: seedtest.py <prop> <diff> [<diff> ...]   prints one line per diff: DETECTED / MISSED with the exit code"""
import sys, os, subprocess, json
WT = os.environ.get('SEED_WT', '/tmp/mutrun')
def sh(cmd, **kw): return subprocess.run(cmd, shell=True, stdout=subprocess.PIPE, stderr=subprocess.STDOUT, universal_newlines=True, **kw)
prop = sys.argv[1]
tier = os.environ.get('SEED_TIER', 'quick')
if not os.path.exists(WT): sh('git -C /repo worktree add --detach %s HEAD' % WT)
head = sh('git -C /repo rev-parse HEAD').stdout.strip()
sh('git -C %s checkout -q --detach %s; git -C %s checkout -- .' % (WT, head, WT))
for d in sys.argv[2:]:
    sh('git -C %s checkout -- .' % WT)
    a = sh('git -C %s apply %s' % (WT, d))
    if a.returncode:
        print('APPLY-FAILED', d, a.stdout[-200:]); continue
    env = dict(os.environ, VERIF_REPO=WT, VP_EVIDENCE_DIR=WT + '_evidence', VP_REPLAY_DIR=WT + '_replays')
    r = subprocess.run(['/verif/check', prop, '--tier', tier], stdout=subprocess.PIPE, stderr=subprocess.STDOUT, universal_newlines=True, env=env, cwd='/verif')
    lines = [l for l in r.stdout.split('\n') if l.startswith('  ') or 'UNCONFIRMED' in l or 'ENGINE-ERROR' in l or 'INCONCLUSIVE' in l or 'MISMATCH' in l]
    has_v = 'VIOLATION property=' in r.stdout
    verdict = 'DETECTED' if (r.returncode == 1 and has_v) else 'CHECK-CRASHED(rc=%d)' % r.returncode if (r.returncode == 1 or 'Traceback' in r.stdout) else ('ENGINE-FLAGGED(rc=%d)' % r.returncode if r.returncode else 'MISSED')
    print(verdict, prop, d, '|', ' ;; '.join(x.strip()[:160] for x in lines[:3]), flush=True)
    sh('git -C %s checkout -- .' % WT)
