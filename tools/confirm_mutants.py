#!/usr/bin/env python3
"""Confirms seeded changes produced by sub-agents: each diff applied alone to a scratch worktree of /repo must build,
pass the 28 unit tests, make its demo fail; and the demo must pass on the unchanged tree.
usage: confirm_mutants.py <seed dir (/tmp/seed_Cxx)> ...   -> writes <seed dir>/out/confirm.json"""
import sys, os, subprocess, json, glob, shutil
from concurrent.futures import ThreadPoolExecutor
WT = '/tmp/mutchk'

def sh(cmd, **kw):
    return subprocess.run(cmd, shell=True, stdout=subprocess.PIPE, stderr=subprocess.STDOUT, universal_newlines=True, **kw)

def build_asan(objdir):
    os.makedirs(objdir, exist_ok=True)
    srcs = [f for f in glob.glob(WT + '/src/*.cpp') if not f.endswith('TlsSocket.cpp')]
    def comp(f):
        return sh('g++ -std=c++11 -DASL_STATIC -O1 -g -w -fsanitize=address -fno-omit-frame-pointer -I%s/include -c %s -o %s/%s.o' % (WT, f, objdir, os.path.basename(f)))
    with ThreadPoolExecutor(16) as ex:
        rs = list(ex.map(comp, srcs))
    bad = [r.stdout[-500:] for r in rs if r.returncode]
    return bad

def run_demo(demo, objdir, exe):
    r = sh('g++ -std=c++11 -DASL_STATIC -O1 -g -w -fsanitize=address -fno-omit-frame-pointer -I%s/include %s %s/*.o -lpthread -ldl -lrt -o %s' % (WT, demo, objdir, exe))
    if r.returncode: return 'build-failed: ' + r.stdout[-400:]
    try:
        r = sh('ASAN_OPTIONS=detect_leaks=1 timeout 120 ' + exe, cwd='/tmp')
    except Exception as e:
        return 'error %s' % e
    return r.returncode

def main():
    if not os.path.exists(WT):
        print(sh('git -C /repo worktree add --detach %s HEAD' % WT).stdout)
    for sd in sys.argv[1:]:
        out = {}
        diffs = sorted(glob.glob(sd + '/out/m*.diff'))
        # baseline objects
        sh('git -C %s checkout -q --detach %s && git -C %s checkout -- . && git -C %s clean -fdq -e _b -e _obj' % (WT, sh('git -C /repo rev-parse HEAD').stdout.strip(), WT, WT))
        bad = build_asan(WT + '/_obj_base')
        for d in diffs:
            name = os.path.basename(d)[:-5]
            demo = sd + '/out/' + name + '_demo.cpp'
            res = {'diff': d}
            sh('git -C %s checkout -- .' % WT)
            base_rc = run_demo(demo, WT + '/_obj_base', WT + '/demo_base')
            res['demo_on_original'] = base_rc
            a = sh('git -C %s apply %s' % (WT, d))
            res['applies'] = a.returncode == 0
            if a.returncode: res['apply_msg'] = a.stdout[-300:]
            st = sh('git -C %s diff --shortstat' % WT).stdout.strip()
            res['diffstat'] = st
            b = sh('cmake -S %s -B %s/_b -G Ninja -DASL_TESTS=ON >/dev/null && cmake --build %s/_b 2>&1 | tail -3 && ctest --test-dir %s/_b -j8 --timeout 300 2>&1 | tail -5' % (WT, WT, WT, WT))
            res['tests'] = '100% tests passed' in b.stdout and 'out of 28' in b.stdout
            if not res['tests']: res['tests_msg'] = b.stdout[-500:]
            bad = build_asan(WT + '/_obj_mut')
            res['builds'] = not bad
            res['demo_with_change'] = run_demo(demo, WT + '/_obj_mut', WT + '/demo_mut')
            res['confirmed'] = bool(res['applies'] and res['tests'] and res['builds'] and res['demo_on_original'] == 0 and res['demo_with_change'] not in (0,) and not str(res['demo_with_change']).startswith('build'))
            out[name] = res
            print(sd, name, json.dumps({k: v for k, v in res.items() if k not in ('diff',)}))
            sh('git -C %s checkout -- .' % WT)
        json.dump(out, open(sd + '/out/confirm.json', 'w'), indent=1)
    shutil.rmtree(WT + '/_obj_mut', ignore_errors=True); shutil.rmtree(WT + '/_obj_base', ignore_errors=True); shutil.rmtree(WT + '/_b', ignore_errors=True)

main()
