// E-REAL: a scalar type whose operators build SMT-LIB terms over Real.  asl's matrix/quaternion *templates* are
// instantiated with it, so the formulas sent to the solver are produced by executing the real template code.
// Comparisons are branch points: their outcome comes from a decision vector (env SYMREAL_DECISIONS, e.g. "0110"),
// defaults to 'true' beyond it, and every decision is logged so that the driver can enumerate all paths.
#ifndef SYMREAL_H
#define SYMREAL_H
#include <string>
#include <vector>
#include <stdio.h>
#include <stdlib.h>
#include <string.h>
struct SymCtx
{
	std::vector<std::string> defs;      // (define-fun tN () Real ...)
	std::vector<std::string> vars;      // declared constants
	std::vector<std::string> pathcond;  // Bool terms decided along this run
	std::vector<std::string> assume;    // side conditions (sqrt definitions, nonzero divisors given by the harness)
	std::vector<int> decisions;
	std::vector<std::string> divisors;  // numerator terms of every divisor used so far (x / (n/d) needs n != 0)
	std::string prefix; size_t pos;
	int nterm, nfresh;
	SymCtx() : pos(0), nterm(0), nfresh(0) { const char* p = getenv("SYMREAL_DECISIONS"); prefix = p ? p : ""; }
	static SymCtx& get() { static SymCtx c; return c; }
	std::string def(const std::string& body) { char n[32]; snprintf(n, 32, "t%d", nterm++); defs.push_back(std::string("(define-fun ") + n + " () Real " + body + ")"); return n; }
	bool decide(const std::string& cond)
	{
		bool v = true;
		if (pos < prefix.size()) v = prefix[pos] == '1';
		pos++;
		decisions.push_back(v);
		pathcond.push_back(v ? cond : "(not " + cond + ")");
		return v;
	}
};
// A value is the rational function n/d of two division-free terms (d defaults to 1): identities and comparisons are
// emitted with denominators cleared, so the solver only sees polynomial (in)equalities.
class Sym
{
public:
	std::string n, d;      // numerator / denominator terms (d == "" means 1)
	Sym() : n("0.0") {}
	Sym(double x) { char b[64]; if (x == (long long)x) snprintf(b, 64, x < 0 ? "(- %lld.0)" : "%lld.0", x < 0 ? -(long long)x : (long long)x); else { snprintf(b, 64, x < 0 ? "(- %.17g)" : "%.17g", x < 0 ? -x : x); } n = b; }
	Sym(int x) { char b[32]; snprintf(b, 32, x < 0 ? "(- %d.0)" : "%d.0", x < 0 ? -x : x); n = b; }
	static Sym var(const char* name) { SymCtx& c = SymCtx::get(); bool have = false; for (size_t i = 0; i < c.vars.size(); i++) if (c.vars[i] == name) have = true; if (!have) c.vars.push_back(name); Sym s; s.n = name; return s; }
	static std::string T(const std::string& body) { return SymCtx::get().def(body); }
	static std::string mul(const std::string& a, const std::string& b) { if (a == "1.0") return b; if (b == "1.0") return a; if (a == "0.0" || b == "0.0") return "0.0"; return T("(* " + a + " " + b + ")"); }
	static Sym frac(const std::string& n, const std::string& d) { Sym s; s.n = n; s.d = d; return s; }
	std::string den() const { return d.empty() ? "1.0" : d; }
	Sym operator+(const Sym& b) const
	{
		if (d.empty() && b.d.empty()) return frac(n == "0.0" ? b.n : b.n == "0.0" ? n : T("(+ " + n + " " + b.n + ")"), "");
		if (d == b.d) return frac(T("(+ " + n + " " + b.n + ")"), d);
		return frac(T("(+ " + mul(n, b.den()) + " " + mul(b.n, den()) + ")"), mul(den(), b.den()));
	}
	Sym operator-() const { return frac(T("(- " + n + ")"), d); }
	Sym operator-(const Sym& b) const { return *this + (-b); }
	Sym operator*(const Sym& b) const { Sym r = frac(mul(n, b.n), (d.empty() && b.d.empty()) ? "" : mul(den(), b.den())); return r; }
	Sym operator/(const Sym& b) const { SymCtx::get().divisors.push_back(b.n); return frac(mul(n, b.den()), mul(den(), b.n)); }      // divisor b.n must be nonzero: recorded, claims can require it
	Sym& operator+=(const Sym& b) { *this = *this + b; return *this; }
	Sym& operator-=(const Sym& b) { *this = *this - b; return *this; }
	Sym& operator*=(const Sym& b) { *this = *this * b; return *this; }
	Sym& operator/=(const Sym& b) { *this = *this / b; return *this; }
	// sign-correct comparison with cleared denominators: a/b < c/e  <=>  (a*e - c*b) * (b*e) < 0
	static std::string cmp(const char* op, const Sym& a, const Sym& b)
	{
		if (a.d.empty() && b.d.empty()) return std::string("(") + op + " " + a.n + " " + b.n + ")";
		std::string diff = T("(- " + mul(a.n, b.den()) + " " + mul(b.n, a.den()) + ")"), dd = mul(a.den(), b.den());
		return std::string("(") + op + " " + T("(* " + diff + " " + dd + ")") + " 0.0)";
	}
	static std::string eqs(const Sym& a, const Sym& b) { if (a.d.empty() && b.d.empty()) return "(= " + a.n + " " + b.n + ")"; return "(= " + mul(a.n, b.den()) + " " + mul(b.n, a.den()) + ")"; }
	bool operator<(const Sym& b) const { return SymCtx::get().decide(cmp("<", *this, b)); }
	bool operator>(const Sym& b) const { return SymCtx::get().decide(cmp(">", *this, b)); }
	bool operator<=(const Sym& b) const { return SymCtx::get().decide(cmp("<=", *this, b)); }
	bool operator>=(const Sym& b) const { return SymCtx::get().decide(cmp(">=", *this, b)); }
	bool operator==(const Sym& b) const { return SymCtx::get().decide(eqs(*this, b)); }
	bool operator!=(const Sym& b) const { return !SymCtx::get().decide(eqs(*this, b)); }
};
inline Sym operator+(double a, const Sym& b) { return Sym(a) + b; }
inline Sym operator-(double a, const Sym& b) { return Sym(a) - b; }
inline Sym operator*(double a, const Sym& b) { return Sym(a) * b; }
inline Sym operator/(double a, const Sym& b) { return Sym(a) / b; }
inline Sym operator+(int a, const Sym& b) { return Sym(a) + b; }
inline Sym operator-(int a, const Sym& b) { return Sym(a) - b; }
inline Sym operator*(int a, const Sym& b) { return Sym(a) * b; }
inline Sym operator/(int a, const Sym& b) { return Sym(a) / b; }
// |n/d| = |n|/|d|
inline Sym fabs(const Sym& x)
{
	std::string an = Sym::T("(ite (>= " + x.n + " 0.0) " + x.n + " (- " + x.n + "))");
	if (x.d.empty()) return Sym::frac(an, "");
	return Sym::frac(an, Sym::T("(ite (>= " + x.d + " 0.0) " + x.d + " (- " + x.d + "))"));
}
inline Sym abs(const Sym& x) { return fabs(x); }
inline Sym sqrt(const Sym& x)
{
	SymCtx& c = SymCtx::get(); char nm[32]; snprintf(nm, 32, "sq%d", c.nfresh++);
	c.vars.push_back(nm);
	// y >= 0 and y*y = n/d  <=>  y*y*d = n
	c.assume.push_back(std::string("(and (>= ") + nm + " 0.0) (= " + Sym::mul(Sym::T(std::string("(* ") + nm + " " + nm + ")"), x.den()) + " " + x.n + "))");
	Sym s; s.n = nm; return s;
}
static inline Sym sym_unsupported(const char* f) { fprintf(stderr, "SYMREAL-UNSUPPORTED %s\n", f); exit(3); return Sym(); }
inline Sym sin(const Sym&) { return sym_unsupported("sin"); }
inline Sym cos(const Sym&) { return sym_unsupported("cos"); }
inline Sym tan(const Sym&) { return sym_unsupported("tan"); }
inline Sym acos(const Sym&) { return sym_unsupported("acos"); }
inline Sym asin(const Sym&) { return sym_unsupported("asin"); }
inline Sym atan2(const Sym&, const Sym&) { return sym_unsupported("atan2"); }
inline Sym floor(const Sym&) { return sym_unsupported("floor"); }
// (and (not (= d 0)) ...) over every divisor recorded so far
inline std::string sym_divisors_nonzero()
{
	SymCtx& c = SymCtx::get(); std::string r = "(and true";
	for (size_t i = 0; i < c.divisors.size(); i++) if (c.divisors[i] != "1.0") r += " (not (= " + c.divisors[i] + " 0.0))";
	return r + ")";
}
// emits one query: declarations, definitions, path condition, assumptions, negated claim
inline void sym_emit(const char* name, const std::vector<std::string>& extra_assume, const std::string& claim)
{
	SymCtx& c = SymCtx::get();
	printf("QUERY %s\n", name);
	printf("DECISIONS ");
	for (size_t i = 0; i < c.decisions.size(); i++) putchar(c.decisions[i] ? '1' : '0');
	printf(" %zu\n", c.prefix.size());
	for (size_t i = 0; i < c.vars.size(); i++) printf("(declare-const %s Real)\n", c.vars[i].c_str());
	for (size_t i = 0; i < c.defs.size(); i++) printf("%s\n", c.defs[i].c_str());
	for (size_t i = 0; i < c.pathcond.size(); i++) printf("(assert %s) ; path\n", c.pathcond[i].c_str());
	for (size_t i = 0; i < c.assume.size(); i++) printf("(assert %s) ; def\n", c.assume[i].c_str());
	for (size_t i = 0; i < extra_assume.size(); i++) printf("(assert %s) ; assume\n", extra_assume[i].c_str());
	printf("(push)\n(check-sat) ; feasibility\n(pop)\n");
	printf("(assert (not %s)) ; claim\n(check-sat)\nENDQUERY\n", claim.c_str());
}
#endif
