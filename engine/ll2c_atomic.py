#!/usr/bin/env python3
"""E-CBMC (minimal IR -> C translator for thread bodies over *global* scalars).

cbmc 6.11 refuses concurrent programs that dereference shared pointers, so the harness keeps its shared objects in
globals and this translator turns every constant address (global + byte offset) into its own C variable.  Supported IR:
atomicrmw / cmpxchg (-> __CPROVER_atomic sections), load/store of i8..i64 at constant addresses, integer arithmetic,
icmp/select/br/phi, pthread_mutex_lock/unlock on a constant address (-> lock variable), direct calls to other translated
functions, ret.  Anything else aborts the translation (the check then reports an engine error, never success)."""
import sys, os, re
sys.path.insert(0, os.path.dirname(os.path.abspath(__file__)))
import ir
from ir import P, TInt, TPtr, TStruct, TArr, TNamed, TVoid


class Unsupported(Exception):
    pass


class Tr(object):
    def __init__(s, mod):
        s.mod = mod
        s.locs = {}        # (global, off, width) -> cname
        s.locks = {}
        s.out = []

    def const_addr(s, t, v):
        """constant pointer expression -> (global name, byte offset)"""
        if v[0] == 'ref' and v[1][0] == '@':
            return v[1], 0
        if v[0] == 'cgep':
            _, bt, pv, idx = v
            g, off = s.const_addr(TPtr(bt), pv)
            tt = bt; first = True
            for it, iv in idx:
                i = int(iv[1])
                if first:
                    off += i * s.mod.sizeof(tt); first = False
                else:
                    r = s.mod.resolve(tt)
                    if isinstance(r, TStruct):
                        off += s.mod.layout(r)[2][i]; tt = r.els[i]
                    else:
                        off += i * s.mod.sizeof(r.el); tt = r.el
            return g, off
        if v[0] == 'ccast' and v[1] == 'bitcast':
            return s.const_addr(v[2], v[3])
        raise Unsupported("address is not a constant global location: %r" % (v,))

    def loc(s, t, v, w):
        g, off = s.const_addr(t, v)
        k = (g, off)
        if k not in s.locs:
            s.locs[k] = ('L_%s_%d' % (re.sub(r'\W', '_', g[1:]), off), w)
        return s.locs[k][0]

    def lock(s, t, v):
        g, off = s.const_addr(t, v)
        k = (g, off)
        if k not in s.locks:
            s.locks[k] = 'K_%s_%d' % (re.sub(r'\W', '_', g[1:]), off)
        return s.locks[k]

    def cty(s, w):
        return {1: 'unsigned char', 8: 'unsigned char', 16: 'unsigned short', 32: 'unsigned int', 64: 'unsigned long long'}[w]

    def val(s, t, v, regs):
        if v[0] == 'ref' and v[1][0] == '%': return regs[v[1]]
        if v[0] == 'num':
            rt = s.mod.resolve(t)
            return '%du' % (int(v[1]) & ((1 << rt.w) - 1)) if rt.w <= 32 else '%dull' % (int(v[1]) & ((1 << 64) - 1))
        raise Unsupported("operand %r" % (v,))

    def func(s, name):
        fn = s.mod.funcs['@' + name]
        lines = []
        regs = {}
        labels = list(fn.blocks.keys())
        rn = [0]

        def newreg(res, w):
            n = 'r%d' % rn[0]; rn[0] += 1
            regs[res] = n
            lines.append('  %s %s;' % (s.cty(w), n))
            return n
        decls_at = len(lines)
        body = []
        phis = {}
        for lab in labels:
            for toks in fn.blocks[lab]:
                if len(toks) > 2 and toks[1][1] == '=' and toks[2][1] == 'phi':
                    p = P(toks); res = p.next()[1]; p.next(); p.next(); t = p.type()
                    inc = []
                    while True:
                        p.expect('['); v = p.value(t); p.expect(','); pred = p.next()[1]; p.expect(']'); inc.append((pred, v))
                        if not p.accept(','): break
                    phis.setdefault(lab, []).append((res, t, inc))
                    newreg(res, s.mod.resolve(t).w)

        def goto(frm, to):
            mv = []
            for res, t, inc in phis.get(to, []):
                for pred, v in inc:
                    if pred == frm: mv.append('%s = %s;' % (regs[res], s.val(t, v, regs)))
            return ' '.join(mv) + ' goto %s;' % s.lab(to)
        for lab in labels:
            body.append('%s: ;' % s.lab(lab))
            for toks in fn.blocks[lab]:
                p = P(toks); res = None
                if len(toks) > 1 and toks[1][1] == '=' and toks[0][0] in ('id', 'qid'):
                    res = p.next()[1]; p.next()
                op = p.next()[1]
                if op in ('tail', 'notail', 'musttail'): op = p.next()[1]
                if op == 'phi': continue
                if op == 'atomicrmw':
                    p.accept('volatile'); aop = p.next()[1]
                    pt = p.type(); pv = p.value(pt); p.expect(','); t = p.type(); v = p.value(t)
                    w = s.mod.resolve(t).w; L = s.loc(pt, pv, w); r = newreg(res, w)
                    cop = {'add': '+', 'sub': '-', 'and': '&', 'or': '|', 'xor': '^'}.get(aop)
                    if aop == 'xchg': upd = '%s = %s;' % (L, s.val(t, v, regs))
                    elif cop: upd = '%s = %s %s %s;' % (L, L, cop, s.val(t, v, regs))
                    else: raise Unsupported('atomicrmw ' + aop)
                    body.append('  __CPROVER_atomic_begin(); %s = %s; %s __CPROVER_atomic_end();' % (r, L, upd))
                elif op == 'cmpxchg':
                    raise Unsupported('cmpxchg')
                elif op == 'load':
                    p.accept('atomic'); p.accept('volatile')
                    t = p.type(); p.expect(','); pt = p.type(); pv = p.value(pt)
                    w = s.mod.resolve(t).w; r = newreg(res, w)
                    body.append('  %s = %s;' % (r, s.loc(pt, pv, w)))
                elif op == 'store':
                    p.accept('atomic'); p.accept('volatile')
                    t = p.type(); v = p.value(t); p.expect(','); pt = p.type(); pv = p.value(pt)
                    w = s.mod.resolve(t).w
                    body.append('  %s = %s;' % (s.loc(pt, pv, w), s.val(t, v, regs)))
                elif op in ('add', 'sub', 'mul', 'and', 'or', 'xor', 'shl', 'lshr'):
                    while p.peek()[1] in ('nuw', 'nsw', 'exact'): p.next()
                    t = p.type(); a = p.value(t); p.expect(','); b = p.value(t)
                    w = s.mod.resolve(t).w; r = newreg(res, w)
                    cop = {'add': '+', 'sub': '-', 'mul': '*', 'and': '&', 'or': '|', 'xor': '^', 'shl': '<<', 'lshr': '>>'}[op]
                    body.append('  %s = (%s)(%s %s %s);' % (r, s.cty(w), s.val(t, a, regs), cop, s.val(t, b, regs)))
                elif op == 'icmp':
                    pred = p.next()[1]; t = p.type(); a = p.value(t); p.expect(','); b = p.value(t)
                    w = s.mod.resolve(t).w; r = newreg(res, 1)
                    A, B = s.val(t, a, regs), s.val(t, b, regs)
                    if pred[0] == 's':
                        st = {32: 'int', 64: 'long long', 8: 'signed char', 16: 'short'}[w]; A = '(%s)%s' % (st, A); B = '(%s)%s' % (st, B)
                    cop = {'eq': '==', 'ne': '!=', 'ult': '<', 'ule': '<=', 'ugt': '>', 'uge': '>=', 'slt': '<', 'sle': '<=', 'sgt': '>', 'sge': '>='}[pred]
                    body.append('  %s = (%s %s %s);' % (r, A, cop, B))
                elif op == 'select':
                    ct = p.type(); c = p.value(ct); p.expect(','); t = p.type(); a = p.value(t); p.expect(','); t2 = p.type(); b = p.value(t2)
                    r = newreg(res, s.mod.resolve(t).w)
                    body.append('  %s = %s ? %s : %s;' % (r, s.val(ct, c, regs), s.val(t, a, regs), s.val(t2, b, regs)))
                elif op in ('zext', 'trunc', 'sext'):
                    ft = p.type(); v = p.value(ft); p.expect('to'); tt = p.type()
                    fw, tw = s.mod.resolve(ft).w, s.mod.resolve(tt).w; r = newreg(res, tw)
                    if op == 'sext':
                        st = {32: 'int', 64: 'long long', 8: 'signed char', 16: 'short'}
                        body.append('  %s = (%s)(%s)(%s)%s;' % (r, s.cty(tw), st[tw], st[fw], s.val(ft, v, regs)))
                    else: body.append('  %s = (%s)%s;' % (r, s.cty(tw), s.val(ft, v, regs)))
                elif op == 'br':
                    if p.accept('label'): body.append('  ' + goto(lab, p.next()[1]))
                    else:
                        ct = p.type(); c = p.value(ct); p.expect(','); p.expect('label'); a = p.next()[1]; p.expect(','); p.expect('label'); b = p.next()[1]
                        body.append('  if (%s) { %s } else { %s }' % (s.val(ct, c, regs), goto(lab, a), goto(lab, b)))
                elif op == 'ret':
                    t = p.type()
                    body.append('  return%s;' % ('' if isinstance(t, TVoid) else ' ' + s.val(t, p.value(t), regs)))
                elif op == 'call':
                    while p.peek()[1] in ('fastcc', 'ccc'): p.next()
                    p.param_attrs(); rt = p.type(); callee = p.value(ir.I8P)
                    p.expect('(')
                    args = []
                    if not p.accept(')'):
                        while True:
                            at = p.type(); p.param_attrs(); args.append((at, p.value(at)))
                            if p.accept(')'): break
                            p.expect(',')
                    cn = callee[1][1:] if callee[0] == 'ref' else None
                    if cn == 'pthread_mutex_lock':
                        K = s.lock(*args[0])
                        body.append('  __CPROVER_atomic_begin(); __CPROVER_assume(%s == 0); %s = 1; __CPROVER_atomic_end();' % (K, K))
                        if res: r = newreg(res, 32); body.append('  %s = 0;' % r)
                    elif cn == 'pthread_mutex_unlock':
                        K = s.lock(*args[0]); body.append('  %s = 0;' % K)
                        if res: r = newreg(res, 32); body.append('  %s = 0;' % r)
                    elif cn and (cn.startswith('llvm.lifetime') or cn.startswith('llvm.dbg') or cn in ('__cxa_atexit',)):
                        if res: r = newreg(res, 32); body.append('  %s = 0;' % r)
                    elif cn and cn.startswith('llvm.memset') :
                        pass      # zero-initialisation of a mutex object: lock variables start at 0
                    elif cn and ('@' + cn) in s.mod.funcs and s.mod.funcs['@' + cn].defined and not args:
                        s.need.add(cn); body.append('  %s();' % s.cfn(cn))
                    else:
                        raise Unsupported('call to ' + str(cn))
                elif op in ('fence',):
                    pass
                else:
                    raise Unsupported('instruction %s in %s' % (op, name))
        ret = 'void' if isinstance(fn.ret, TVoid) else s.cty(s.mod.resolve(fn.ret).w)
        return '%s %s(void)\n{\n%s\n%s\n}\n' % (ret, s.cfn(name), '\n'.join(lines), '\n'.join(body))

    def lab(s, l): return 'B_' + re.sub(r'\W', '_', l[1:])
    def cfn(s, n): return 'F_' + re.sub(r'\W', '_', n)

    def program(s, threads, getter, expected, witness=False):
        """threads: list of function names run concurrently; getter: function returning the observed value"""
        s.need = set()
        done = set()
        funcs = []
        init = [f for f in s.mod.funcs if f.startswith('@_GLOBAL__sub_I_')]
        todo = list(threads) + [getter] + [f[1:] for f in init]
        while todo:
            f = todo.pop()
            if f in done: continue
            done.add(f); funcs.append(s.func(f)); todo.extend(s.need - done)
        decl = ['%s %s;' % (s.cty(w), n) for (n, w) in s.locs.values()] + ['unsigned int %s;' % k for k in s.locks.values()]
        protos = ['%s;' % f.split('\n')[0] for f in funcs]
        main = ['int main(void)', '{']
        for f in init: main.append('  %s();' % s.cfn(f[1:]))
        for i, t in enumerate(threads):
            decl.append('unsigned int done%d;' % i)
            funcs.append('void T%d(void) { %s(); done%d = 1; }\n' % (i, s.cfn(t), i))
        for i, t in enumerate(threads):
            main.append('  __CPROVER_ASYNC_%d: T%d();' % (i + 1, i))
        main.append('  __CPROVER_assume(%s);' % ' && '.join('done%d' % i for i in range(len(threads))))
        main.append('  unsigned int final = %s();' % s.cfn(getter))
        if witness: main.append('  __CPROVER_assert(0, "witness: end of scenario reachable");')
        else: main.append('  __CPROVER_assert(final == %du, "no update lost: final value equals initial value plus the sum of all operations");' % (expected & 0xffffffff))
        main.append('  return 0;\n}')
        return '\n'.join(decl) + '\n' + '\n'.join(protos) + '\n' + '\n'.join(funcs) + '\n'.join(main) + '\n'
