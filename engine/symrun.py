#!/usr/bin/env python3
"""developer front end: build one harness and explore it in-process"""
import sys, os, time, argparse, json
sys.path.insert(0, os.path.dirname(os.path.abspath(__file__)))
import build, ir, llsym

ap = argparse.ArgumentParser()
ap.add_argument('harness'); ap.add_argument('entry'); ap.add_argument('--src', default=''); ap.add_argument('--params', default='')
ap.add_argument('--out', default='/tmp/vp_dev'); ap.add_argument('--maxpaths', type=int, default=10**9)
ap.add_argument('--env', default='vlibc.c'); ap.add_argument('--profile', action='store_true'); ap.add_argument('--nobuild', action='store_true'); ap.add_argument('--simp', action='store_true')
a = ap.parse_args()
t0 = time.time()
linked = a.out + '/linked.ll'
if not a.nobuild:
    linked = build.build_ir(a.out, [x for x in a.src.split(',') if x], a.harness, [x for x in a.env.split(',') if x])
t1 = time.time()
mod = ir.parse_module(open(linked).read())
t2 = time.time()
eng = llsym.Engine(mod, params=[int(x) for x in a.params.split(',') if x])
eng.simp = a.simp
eng.prepare('@' + a.entry)
t3 = time.time()
def go():
    eng.explore()
if a.profile:
    import cProfile, pstats
    cProfile.run('go()', '/tmp/vp_prof'); pstats.Stats('/tmp/vp_prof').sort_stats('cumtime').print_stats(35)
else:
    go()
t4 = time.time()
print("build %.1fs parse %.2fs init %.2fs explore %.2fs" % (t1 - t0, t2 - t1, t3 - t2, t4 - t3))
print("paths=%d %s queries=%d (sat %d unsat %d unknown %d) solver_s=%.2f funcs=%d reach=%s" % (eng.paths, eng.paths_ended, eng.nq, eng.nq_sat, eng.nq_unsat, eng.nq_unknown, eng.tq, len(eng.funcs_executed), sorted(eng.reach)))
seen = set()
for v in eng.violations:
    k = (v['kind'], v['msg'], v['site'])
    if k in seen: continue
    seen.add(k); print("VIOL", json.dumps(v))
for m in sorted(set(eng.inconclusive))[:20]: print("INCONCLUSIVE", m)
for k, n in list(eng.ubnotes.items())[:10]: print("UBNOTE", n, k)
print("externs:", sorted(eng.externs_used))
