#!/usr/bin/env python3
"""E-SYM: path-wise symbolic executor for LLVM-14 IR with a z3 back end.

Heap shape is concrete on every path; integer/float/byte *values* are z3 terms.  The engine
forks where the code branches on symbolic data (and where a symbolic size/offset must be
made concrete); every assertion and every memory access is decided by the solver for all
values on that path.  Exhausting the paths is a verdict for the whole bounded input space.
"""
import sys, os, time, math, struct, re
import z3
from symval import *
from ir import parse_module, TInt, TPtr, TFloat, TArr, TVec, TStruct, TNamed, TOpaque
import decode as dec

VOID = -10**9
sys.setrecursionlimit(10000)


class Frame(object):
    __slots__ = ('fn', 'regs', 'code', 'bi', 'ip', 'allocas', 'retdst', 'normal', 'va')

    def clone(s):
        f = Frame.__new__(Frame)
        f.fn = s.fn; f.regs = list(s.regs); f.code = s.code; f.bi = s.bi; f.ip = s.ip
        f.allocas = list(s.allocas); f.retdst = s.retdst; f.normal = s.normal; f.va = s.va
        return f


TABLE_EPOCH = [0]     # bumped whenever a lookup-table array constant is introduced: older models do not interpret it


class State(object):
    @property
    def model(s):
        if s._model is not None and s._mepoch != TABLE_EPOCH[0]:
            s._model = None
        return s._model

    @model.setter
    def model(s, m):
        s._model = m; s._mepoch = TABLE_EPOCH[0]

    def __init__(s):
        s.objs = {}; s.owned = set(); s.nextobj = 1
        s.pc = []; s.frames = []; s.inputs = []; s.notes = []
        s.decisions = []; s.pending = []; s._model = None; s._mepoch = 0
        s.steps = 0; s.reach = set(); s.ubnotes = []
        s.env = {}          # environment-model state (clock, stubs ...), values must be immutable or copied by env_copy
        s.nfresh = 0
        s.markkey = None; s.markn = 0
        s.mark_known = []
        s.known = {}        # AST id of a decided condition -> (condition, side); valid for the rest of the path
        s.baseline = 0      # object ids below this were allocated before the harness entry
        s.threads = None    # thread model (threads_sym.py): list of Th, frames of the running one aliased by s.frames
        s.cur = 0; s.sched = None

    def fork(s):
        n = State.__new__(State)
        n.objs = dict(s.objs); n.owned = set(); s.owned = set()
        n.nextobj = s.nextobj; n.pc = list(s.pc)
        if s.threads is None:
            n.frames = [f.clone() for f in s.frames]
            n.threads = None
        else:
            n.threads = [t.clone() for t in s.threads]
            n.frames = n.threads[s.cur].frames
        n.cur = s.cur; n.sched = s.sched
        n.inputs = list(s.inputs); n.notes = list(s.notes)
        n.decisions = list(s.decisions); n.pending = list(s.pending); n._model = s._model; n._mepoch = s._mepoch
        n.steps = s.steps; n.reach = set(s.reach); n.ubnotes = list(s.ubnotes)
        n.env = {k: (list(v) if isinstance(v, list) else dict(v) if isinstance(v, dict) else v) for k, v in s.env.items()}
        n.nfresh = s.nfresh; n.baseline = s.baseline
        n.markkey = s.markkey; n.markn = s.markn
        n.known = dict(s.known); n.mark_known = list(s.mark_known)
        return n

    def wobj(s, oid):
        if oid not in s.owned:
            s.objs[oid] = s.objs[oid].clone(); s.owned.add(oid)
        return s.objs[oid]

    def alloc(s, size, kind, name='', fill=None):
        oid = s.nextobj; s.nextobj += 1
        s.objs[oid] = Obj(size, kind, name, oid, fill); s.owned.add(oid)
        return Ptr(oid, 0)


class Engine(object):
    MAX_OBJ = 1 << 26

    def __init__(s, mod, params=(), maxsteps=2000000, timeout_ms=60000, concrete_inputs=None):
        s.mod = mod
        s.params = list(params)
        s.maxsteps = maxsteps
        s.concrete_inputs = concrete_inputs      # list of ints: nondet returns these (validation mode)
        s.solver = z3.Solver()
        s.solver.set('timeout', min(timeout_ms, 10000))
        s.timeout_ms = timeout_ms; s.nq_fallback = 0
        s.solver_pc = []
        s.globals = {}
        s.nq = 0; s.tq = 0.0; s.nq_sat = 0; s.nq_unsat = 0; s.nq_unknown = 0
        s.paths = 0; s.paths_ended = {}
        s.violations = []        # dicts
        s.inconclusive = []      # messages
        s.ubnotes = {}
        s.reach = set()
        s.funcs_executed = set()
        s.samples = []
        s.work = []
        s.cur = None
        s.externs_used = set()
        s.decoder = dec.Decoder(mod, s.globals, HANDLERS)
        s.ext = {}
        import builtins_sym
        builtins_sym.register(s)
        threads_sym.install(s)
        s.st0 = None
        s.table_cache = {}
        s.table_axioms = []
        s.simp = False
        s.sample_every = 1
        s.maxsamples = 8
        s.validation = []        # (inputs, notes) pairs for native replays

    # ------------------------------------------------------------------ solver
    def _sync(s, pc):
        sp = s.solver_pc
        n = min(len(sp), len(pc))
        k = 0
        while k < n and sp[k] is pc[k]:
            k += 1
        if len(sp) > k:
            s.solver.pop(len(sp) - k)
            del sp[k:]
        for c in pc[k:]:
            s.solver.push(); s.solver.add(c); sp.append(c)

    def check(s, st, extra=None, want_model=True):
        """-> ('sat', model) | ('unsat', None) | ('unknown', None)"""
        t = time.time()
        s._sync(st.pc)
        if extra is not None:
            s.solver.push(); s.solver.add(extra)
        r = s.solver.check()
        m = None
        if r == z3.sat:
            m = s.solver.model() if want_model else None
            res = 'sat'; s.nq_sat += 1
        elif r == z3.unsat:
            res = 'unsat'; s.nq_unsat += 1
        else:
            # the incremental core gave up: retry once with a fresh one-shot solver (bit-blasting tactic pipeline)
            s2 = z3.Solver()
            s2.set('timeout', s.timeout_ms)
            s2.add(*s.table_axioms); s2.add(*st.pc)
            if extra is not None: s2.add(extra)
            r = s2.check()
            s.nq_fallback += 1
            if r == z3.sat:
                m = s2.model() if want_model else None
                res = 'sat'; s.nq_sat += 1
            elif r == z3.unsat:
                res = 'unsat'; s.nq_unsat += 1
            else:
                res = 'unknown'; s.nq_unknown += 1
        if extra is not None:
            s.solver.pop()
        s.nq += 1; s.tq += time.time() - t
        return res, m

    def model_of(s, st):
        if st.model is None:
            r, m = s.check(st)
            if r != 'sat':
                if r == 'unknown':
                    raise Inconclusive("solver unknown on path condition")
                raise PathEnd('infeasible')
            st.model = m
        return st.model

    def S(s, x):
        """simplify, except that in normalising mode big terms are left alone (z3.simplify rewrites the whole DAG)"""
        if s.simp and not _small(x, 4): return x
        return z3.simplify(x)

    def fresh(s, st, w, tag='u'):
        st.nfresh += 1
        return z3.BitVec('%s%d' % (tag, st.nfresh), w)

    def decide(s, st, c):
        """c: z3 Bool or python bool.  Returns the branch taken by this state; forks the sibling."""
        if c is True or c is False:
            return c
        c = z3.simplify(c)
        if z3.is_true(c): return True
        if z3.is_false(c): return False
        kid = c.get_id()
        kn = st.known.get(kid)
        if kn is not None:
            return kn[1]
        r_ = s._decide(st, c)
        st.known[kid] = (c, r_)
        st.mark_known.append(kid)
        return r_

    def _decide(s, st, c):
        if st.pending:
            s._mark(st)
            d = st.pending.pop(0)
            st.decisions.append(d)
            side = bool(d & 1)
            if not d & 2:
                me = c if side else z3.Not(c)
                st.pc.append(me)
                if st.model is not None and not z3.is_true(st.model.eval(me, model_completion=True)):
                    st.model = None
            return side
        s._mark(st)
        # models that contain big lookup tables are expensive to extract: then decide by two plain checks
        lazy = bool(s.table_axioms)
        m = st.model
        if m is None and not lazy:
            m = s.model_of(st)
        if m is None:
            r1, _ = s.check(st, c, False)
            if r1 == 'unknown':
                s.inconclusive.append("solver unknown at branch in %s" % s.where(st)); r1 = 'unsat'
            if r1 == 'unsat':
                st.decisions.append(0 | 2); return False
            r2, _ = s.check(st, z3.Not(c), False)
            if r2 == 'unknown':
                s.inconclusive.append("solver unknown at branch in %s" % s.where(st)); r2 = 'unsat'
            if r2 == 'unsat':
                st.decisions.append(1 | 2); return True
            s._sibling(st, 0, None)
            st.decisions.append(1)
            st.pc.append(c)
            return True
        v = m.eval(c, model_completion=True)
        side = z3.is_true(v)
        if not side and not z3.is_false(v):
            v = z3.simplify(v); side = z3.is_true(v)
            if not side and not z3.is_false(v):
                st.model = None
                return s.decide(st, c)
        me = c if side else z3.Not(c)
        other = z3.Not(c) if side else c
        r, m2 = s.check(st, other, not lazy)
        if r == 'unknown':
            s.inconclusive.append("solver unknown at branch in %s" % s.where(st))
            r = 'unsat'
        if r == 'unsat':
            st.decisions.append((1 if side else 0) | 2)
            return side
        s._sibling(st, 0 if side else 1, m2)
        st.decisions.append(1 if side else 0)
        st.pc.append(me)
        return side

    def rewind(s, st):
        st.frames[-1].ip -= 1

    def _mark(s, st):
        """index into st.decisions where the decisions of the instruction being executed begin"""
        fr = st.frames[-1]
        key = (len(st.frames), id(fr.code), fr.ip, st.steps)
        if st.markkey != key:
            st.markkey = key; st.markn = len(st.decisions); st.mark_known = []
        return st.markn

    def _sibling(s, st, d, model):
        k = s._mark(st)
        sib = st.fork()
        sib.pending = st.decisions[k:] + [d]
        del sib.decisions[k:]
        for kid in st.mark_known:          # the sibling re-executes this instruction: forget its cached decisions
            sib.known.pop(kid, None)
        sib.mark_known = []
        sib.markkey = None
        sib.model = model
        s.rewind(sib)
        s.work.append(sib)

    def concretize(s, st, e, limit=64, what='value'):
        """make a symbolic bit-vector concrete on this path, forking one sibling per other feasible value"""
        if e.__class__ is int:
            return e
        if isinstance(e, z3.BoolRef):
            return 1 if s.decide(st, e) else 0
        e = z3.simplify(e)
        if z3.is_bv_value(e):
            return e.as_long()
        if st.pending:
            s._mark(st)
            d = st.pending.pop(0)
            st.decisions.append(d)
            v = d[1]
            st.pc.append(e == v)
            if st.model is not None and not z3.is_true(st.model.eval(e == v, model_completion=True)):
                st.model = None
            return v
        vals = []
        s._mark(st)
        m = s.model_of(st)
        first = m.eval(e, model_completion=True).as_long()
        vals.append((first, m))
        block = [e != first]
        while True:
            r, m2 = s.check(st, z3.And(*block) if len(block) > 1 else block[0])
            if r == 'unknown':
                s.inconclusive.append("solver unknown enumerating %s in %s" % (what, s.where(st))); break
            if r == 'unsat': break
            v = m2.eval(e, model_completion=True).as_long()
            vals.append((v, m2)); block.append(e != v)
            if len(vals) > limit:
                raise Inconclusive("more than %d feasible values for %s in %s" % (limit, what, s.where(st)))
        for v, m2 in vals[1:]:
            s._sibling(st, ('v', v), m2)
        st.decisions.append(('v', first))
        if len(vals) > 1:
            st.pc.append(e == first)
        return first

    def must_hold(s, st, c, kind, msg):
        """assertion: if pc && !c is satisfiable -> record violation (with model); continue under c"""
        if c is True: return
        if c is False:
            raise Violation(kind, msg, s.model_of(st))
        c = z3.simplify(c)
        if z3.is_true(c): return
        # cheap counterexample search first: any model of the path condition that falsifies c is a violation
        # (found even when the full query pc && !c is too hard for the solver)
        m0 = st.model
        if m0 is None and not s.table_axioms:
            try: m0 = s.model_of(st)
            except (PathEnd, Inconclusive): m0 = None
        r = None
        if m0 is not None and z3.is_false(m0.eval(c, model_completion=True)):
            r, m = 'sat', m0
        if r is None:
            r, m = s.check(st, z3.Not(c))
        if r == 'sat':
            s.record_violation(st, kind, msg, m)
            r2, m2 = s.check(st, c)
            if r2 != 'sat':
                raise PathEnd('violated on all values')
            st.model = m2
            st.pc.append(c)
        elif r == 'unknown':
            s.inconclusive.append("solver unknown on assertion %s in %s" % (msg, s.where(st)))
            st.pc.append(c); st.model = None
        else:
            pass

    # ------------------------------------------------------------------ reporting
    def where(s, st):
        return '<'.join(f.fn.name[1:] for f in reversed(st.frames[-4:]))

    def input_values(s, st, m):
        out = []
        for name, kind, x in st.inputs:
            if x.__class__ in (int, float):
                out.append([name, kind, x]); continue
            if m is None:
                out.append([name, kind, 0]); continue
            v = m.eval(x, model_completion=True)
            if z3.is_fp(x):
                bvv = m.eval(z3.fpToIEEEBV(x), model_completion=True)
                out.append([name, kind, z3.simplify(bvv).as_long()])
            elif isinstance(x, z3.BoolRef):
                out.append([name, kind, 1 if z3.is_true(v) else 0])
            else:
                out.append([name, kind, v.as_long()])
        return out

    def record_violation(s, st, kind, msg, m=None):
        try:
            if m is None: m = s.model_of(st)
        except (PathEnd, Inconclusive):
            m = None
        if m is not None:
            for x in st.pc:
                if not z3.is_true(m.eval(x, model_completion=True)):
                    s.inconclusive.append("engine self-check: counterexample model does not satisfy the path condition (%s: %s)" % (kind, msg))
                    return
        site = s.where(st)
        s.violations.append({'kind': kind, 'msg': msg, 'site': site, 'inputs': s.input_values(st, m),
                             'params': s.params, 'decisions': len(st.decisions)})

    def ubnote(s, st, what):
        k = what + ' @ ' + s.where(st)
        s.ubnotes[k] = s.ubnotes.get(k, 0) + 1

    # ------------------------------------------------------------------ memory
    def obj_of(s, st, p, what):
        if p.__class__ is not Ptr:
            if isinstance(p, Undef):
                raise Violation('uninit', "%s through uninitialised pointer" % what)
            if isinstance(p, FnPtr):
                raise Violation('memory', "%s through function pointer" % what)
            if isinstance(p, PInt): return s.obj_of(st, p.p, what)
            raise Violation('memory', "%s through non-pointer %r" % (what, p))
        if p.obj <= 0:
            raise Violation('memory', "%s of null/invalid pointer (offset %s)" % (what, p.off))
        o = st.objs.get(p.obj)
        if o is None:
            raise Violation('memory', "%s wild" % what)
        if not o.live:
            raise Violation('memory', "%s of %s object %s" % (what, 'freed' if o.kind == 'heap' else 'dead', o.name))
        return o

    def conc_off(s, st, p, n, what):
        """bounds-check a symbolic offset with the solver, then make it concrete (forking)"""
        o = s.obj_of(st, p, what)
        off = p.off
        if o.size < n:
            raise Violation('memory', "%s of %d bytes in object %s of size %d" % (what, n, o.name, o.size))
        s.must_hold(st, z3.ULE(off, z3.BitVecVal(o.size - n, 64)), 'memory', "%s out of bounds (symbolic offset) in %s[%d]" % (what, o.name, o.size))
        return s.concretize(st, off, what='offset')

    def load_cells(s, st, p, n, what='load'):
        o = s.obj_of(st, p, what)
        off = p.off
        if off.__class__ is not int:
            off = s.conc_off(st, p, n, what)
        if off < 0 or off + n > o.size:
            raise Violation('memory', "%s out of bounds: offset %d size %d in %s[%d]" % (what, off, n, o.name, o.size))
        return o.data[off:off + n]

    def load(s, st, p, cls, n, w):
        if p.__class__ is Ptr and p.off.__class__ is not int and cls != 'agg':
            r = s.load_symoff(st, p, cls, n, w)
            if r is not None: return r
        if cls == 'agg':
            return s.load_agg(st, p, w)
        cells = s.load_cells(st, p, n)
        return s.cells_to_value(st, cells, cls, n, w)

    def cells_to_value(s, st, cells, cls, n, w):
        if cls == 'i':
            try:
                v = int.from_bytes(bytes(cells), 'little')
                return v if w == 8 * n else v & mask(w)
            except (TypeError, ValueError):
                pass
            c0 = cells[0]
            if c0.__class__ is tuple:
                x = c0[0]
                if c0[1] == 0 and all(c.__class__ is tuple and c[0] is x and c[1] == i for i, c in enumerate(cells)):
                    if isinstance(x, z3.BitVecRef) and x.size() == 8 * n:
                        return x if w == 8 * n else z3.Extract(w - 1, 0, x)
                    if z3.is_fp(x) and x.sort().ebits() + x.sort().sbits() == 8 * n:
                        return fp_bits(x)
                    if x.__class__ in (Ptr, FnPtr) and n == 8:
                        return PInt(x)
            if any(c is None for c in cells):
                if all(c is None for c in cells):
                    return Undef(w, True)
                # partially initialised: keep defined bytes, undefined ones become fresh unconstrained bytes
                s.ubnote(st, 'load of partially uninitialised %d-byte value' % n)
                cells = [(s.fresh(st, 8), 0) if c is None else c for c in cells]
            if any(c.__class__ is tuple and c[0].__class__ in (Ptr, FnPtr) for c in cells):
                # part of a stored pointer read as data (e.g. the inactive view of a union): numeric address bits
                # are not modelled -> indeterminate value
                return Undef(w)
            parts = [s.byte_expr(c) for c in cells]
            v = s.S(z3.Concat(*reversed(parts))) if n > 1 else parts[0]
            if z3.is_bv_value(v): v = v.as_long()
            if w != 8 * n:
                v = v & mask(w) if v.__class__ is int else z3.Extract(w - 1, 0, v)
            if w == 1 and v.__class__ is not int:
                v = v == 1
            return v
        if cls == 'p':
            c0 = cells[0]
            if c0.__class__ is tuple and c0[0].__class__ in (Ptr, FnPtr) and c0[1] == 0:
                x = c0[0]
                if all(c.__class__ is tuple and c[0] is x and c[1] == i for i, c in enumerate(cells)):
                    return x
            if all(c is None for c in cells):
                return Undef(64, True)
            try:
                v = int.from_bytes(bytes(cells), 'little')
                return NULL if v == 0 else Ptr(0, v)
            except (TypeError, ValueError):
                pass
            if any(c is None for c in cells):
                return Undef(64)
            # bytes that are data, read as a pointer (e.g. the inactive member of a union): an integer-valued
            # pointer into no object; any dereference is reported
            if any(c.__class__ is tuple and c[0].__class__ in (Ptr, FnPtr) for c in cells):
                return Undef(64)
            parts = [s.byte_expr(c) for c in cells]
            return Ptr(0, z3.simplify(z3.Concat(*reversed(parts))))
        if cls == 'f':
            c0 = cells[0]
            if c0.__class__ is tuple and z3.is_fp(c0[0]) and c0[1] == 0:
                x = c0[0]
                if x.sort().ebits() + x.sort().sbits() == 8 * n and all(c.__class__ is tuple and c[0] is x and c[1] == i for i, c in enumerate(cells)):
                    return x
            try:
                return struct.unpack('<d' if n == 8 else '<f', bytes(cells))[0]
            except (TypeError, ValueError):
                pass
            if all(c is None for c in cells):
                return Undef(8 * n)
            iv = s.cells_to_value(st, cells, 'i', n, 8 * n)
            if isinstance(iv, PInt): raise Inconclusive("pointer loaded as float")
            return z3.fpBVToFP(bv(iv, 8 * n), fsort(w))
        raise AssertionError(cls)

    def byte_expr(s, c):
        if c.__class__ is int:
            return z3.BitVecVal(c, 8)
        if c.__class__ is tuple:
            x, i = c
            if isinstance(x, z3.BitVecRef):
                return z3.Extract(8 * i + 7, 8 * i, x) if x.size() > 8 else x
            if z3.is_fp(x):
                return z3.Extract(8 * i + 7, 8 * i, fp_bits(x))
            # numeric address bits are not modelled: an unknown byte (over-approximation, noted)
            st = s.cur
            s.ubnote(st, 'byte of a stored pointer used as data (treated as an unknown byte)')
            return s.fresh(st, 8, 'pb')
        raise Violation('uninit', "read of uninitialised byte")

    def load_symoff(s, st, p, cls, n, w):
        """symbolic-offset load from a small object: ite chain instead of forking (lookup tables)"""
        o = s.obj_of(st, p, 'load')
        off = z3.simplify(p.off)
        if z3.is_bv_value(off):
            return None if False else s.load(st, Ptr(p.obj, off.as_long()), cls, n, w)
        if cls == 'p' or o.size > 8192 or o.size < n:
            return None
        s.must_hold(st, z3.ULE(off, z3.BitVecVal(o.size - n, 64)), 'memory',
                    "load out of bounds (symbolic offset) in %s[%d]" % (o.name, o.size))
        step = 1
        if n > 1:
            m = s.model_of(st)
            r0 = m.eval(off, model_completion=True).as_long() % n
            r, _ = s.check(st, z3.URem(off, z3.BitVecVal(n, 64)) != r0)
            if r != 'unsat':
                return None
            step = n; start = r0
        else:
            start = 0
        cands = range(start, o.size - n + 1, step)
        if len(cands) > 4096:
            return None
        # constant-content objects: one cached z3 array term per (content, access shape)
        try:
            raw = bytes(o.data)
        except (TypeError, ValueError):
            raw = None
        if raw is not None and cls == 'i':
            key = (raw, n, w, start, step)
            arr = s.table_cache.get(key)
            if arr is None:
                # a named array constant whose contents are asserted once at the solver's base level
                ws = 1 if w == 1 else w
                arr = z3.Array('tbl%d_%s' % (len(s.table_cache), o.name.strip('@')[:24]), z3.BitVecSort(64), z3.BitVecSort(ws))
                ax = [z3.Select(arr, z3.BitVecVal(i, 64)) == z3.BitVecVal(int.from_bytes(raw[i:i + n], 'little') & mask(w), ws) for i in cands]
                s.table_cache[key] = arr
                s.table_axioms.extend(ax)
                TABLE_EPOCH[0] += 1
                if s.solver_pc:
                    s.solver.pop(len(s.solver_pc)); del s.solver_pc[:]
                s.solver.add(*ax)
            r = z3.Select(arr, off)
            return (r == 1) if w == 1 else r
        e = None
        for i in reversed(cands):
            cells = o.data[i:i + n]
            if any(c is None for c in cells):
                continue
            v = s.cells_to_value(st, cells, cls, n, w)
            if isinstance(v, (PInt, Undef)): return None
            if cls == 'f':
                v = fpv(v, w)
            elif w == 1:
                v = v if isinstance(v, z3.BoolRef) else z3.BoolVal(bool(v))
            else:
                v = bv(v, w)
            e = v if e is None else z3.If(off == i, v, e)
        if e is None:
            raise Violation('uninit', "load of uninitialised memory in %s" % o.name)
        return e

    def load_agg(s, st, p, t):
        t = s.mod.resolve(t)
        if isinstance(t, TStruct):
            offs = s.mod.layout(t)[2]
            return Agg([s.load(st, Ptr(p.obj, p.off + o), *s.decoder.tclass(e)) for e, o in zip(t.els, offs)])
        if isinstance(t, (TArr, TVec)):
            es = s.mod.sizeof(t.el)
            return Agg([s.load(st, Ptr(p.obj, p.off + i * es), *s.decoder.tclass(t.el)) for i in range(t.n)])
        raise Inconclusive("load of aggregate %r" % (t,))

    def store(s, st, p, v, cls, n, w):
        if cls == 'agg':
            return s.store_agg(st, p, v, w)
        o = s.obj_of(st, p, 'store')
        off = p.off
        if off.__class__ is not int:
            off = s.conc_off(st, p, n, 'store')
        if off < 0 or off + n > o.size:
            raise Violation('memory', "store out of bounds: offset %d size %d in %s[%d]" % (off, n, o.name, o.size))
        if o.kind == 'const':
            raise Violation('memory', "store to constant %s" % o.name)
        o = st.wobj(p.obj)
        o.data[off:off + n] = s.value_to_cells(v, cls, n, w)

    def value_to_cells(s, v, cls, n, w):
        c = v.__class__
        if c is int:
            return list((v & mask(8 * n)).to_bytes(n, 'little'))
        if c is float:
            return list(struct.pack('<d' if n == 8 else '<f', v))
        if c is Ptr:
            if v.obj == 0:
                if v.off.__class__ is int:
                    return list((v.off & mask(64)).to_bytes(8, 'little'))
                return [(v.off, i) for i in range(n)]
            return [(v, i) for i in range(n)]
        if c is FnPtr:
            return [(v, i) for i in range(n)]
        if c is PInt:
            pp = v.p
            return [(pp, i) for i in range(n)]
        if c is Undef:
            return [None] * n
        if isinstance(v, z3.BoolRef):
            v = z3.If(v, z3.BitVecVal(1, 8 * n), z3.BitVecVal(0, 8 * n))
        elif isinstance(v, z3.BitVecRef):
            if v.size() != 8 * n:
                v = z3.ZeroExt(8 * n - v.size(), v)
        elif z3.is_fp(v):
            pass
        else:
            raise Inconclusive("store of %r" % (v,))
        return [(v, i) for i in range(n)]

    def store_agg(s, st, p, v, t):
        t = s.mod.resolve(t)
        if isinstance(t, TStruct):
            offs = s.mod.layout(t)[2]
            for e, o, x in zip(t.els, offs, v):
                s.store(st, Ptr(p.obj, p.off + o), x, *s.decoder.tclass(e))
            return
        if isinstance(t, (TArr, TVec)):
            es = s.mod.sizeof(t.el)
            for i, x in enumerate(v):
                s.store(st, Ptr(p.obj, p.off + i * es), x, *s.decoder.tclass(t.el))
            return
        raise Inconclusive("store of aggregate %r" % (t,))

    def heap_alloc(s, st, size, name, fill=None):
        if size.__class__ is not int:
            size = s.concretize(st, size, what='allocation size')
        if size > s.MAX_OBJ:
            return None
        return st.alloc(size, 'heap', name, fill)

    def heap_free(s, st, p, what='free'):
        if p.__class__ is not Ptr:
            if isinstance(p, Undef): raise Violation('uninit', "%s of uninitialised pointer" % what)
            raise Violation('memory', "%s of non-pointer %r" % (what, p))
        if p.obj == 0:
            if p.off == 0: return
            raise Violation('memory', "%s of invalid pointer %r" % (what, p.off))
        o = st.objs.get(p.obj)
        if o is None or o.kind != 'heap':
            raise Violation('memory', "%s of non-heap object %s" % (what, o.name if o else '?'))
        off = p.off
        if off.__class__ is not int:
            off = s.concretize(st, off, what='free offset')
        if off != 0:
            raise Violation('memory', "%s of pointer into the middle of block %s (+%d)" % (what, o.name, off))
        if not o.live:
            raise Violation('memory', "double free of %s" % o.name)
        o = st.wobj(p.obj)
        o.live = False; o.data = None

    def read_cstr(s, st, p, maxlen=1 << 16):
        """concrete C string at p (engine-internal use for names/formats); None if not concrete"""
        o = s.obj_of(st, p, 'read')
        if p.off.__class__ is not int: return None
        out = bytearray()
        i = p.off
        while i < o.size and len(out) < maxlen:
            c = o.data[i]
            if c.__class__ is not int: return None
            if c == 0: return bytes(out)
            out.append(c); i += 1
        return None

    # ------------------------------------------------------------------ globals
    def init_globals(s, st):
        mod = s.mod
        for gn, (t, init, const) in mod.globals.items():
            rt = mod.resolve(t)
            try: sz = mod.sizeof(rt)
            except Exception: sz = 0
            p = st.alloc(max(sz, 1), 'const' if const and init is not None else 'global', gn)
            s.globals[gn] = p
        for gn, (t, init, const) in mod.globals.items():
            o = st.objs[s.globals[gn].obj]
            if init is None:
                o.data = [0] * o.size      # external globals (stdout, ...) read as zero
                continue
            s.init_bytes(o, 0, t, init)

    def init_bytes(s, o, off, t, v):
        mod = s.mod
        rt = mod.resolve(t)
        k = v[0]
        sz = mod.sizeof(rt)
        if k in ('zeroinitializer', 'undef', 'poison'):
            o.data[off:off + sz] = [0] * sz
        elif k == 'cstr':
            b = dec.cstr_bytes(v[1])
            o.data[off:off + len(b)] = list(b)
        elif k in ('carray', 'cvector'):
            es = mod.sizeof(rt.el)
            for i, (et, ev) in enumerate(v[1]):
                s.init_bytes(o, off + i * es, et, ev)
        elif k == 'cstruct':
            o.data[off:off + sz] = [0] * sz
            offs = mod.layout(rt)[2]
            for (et, ev), fo in zip(v[1], offs):
                s.init_bytes(o, off + fo, et, ev)
        else:
            val = s.decoder.cval(t, v)
            cls = s.decoder.tclass(t)
            o.data[off:off + sz] = s.value_to_cells(val, cls[0], cls[1], cls[2])

    # ------------------------------------------------------------------ frames
    def push_frame(s, st, df, args, retdst, normal):
        fr = Frame()
        fr.fn = df
        regs = [None] * df.nregs
        regs.extend(df.consts)
        fr.regs = regs
        np_ = len(df.params)
        for i in range(np_):
            regs[df.params[i]] = args[i]
        fr.va = args[np_:] if df.va else None
        fr.code = df.blocks[0]; fr.bi = 0; fr.ip = 0
        fr.allocas = []; fr.retdst = retdst; fr.normal = normal
        st.frames.append(fr)
        st.steps += df.blocklen[0]
        return fr

    def get_func(s, name):
        df = s.decoder.get(name)
        s.funcs_executed.add(name)
        return df

    # ------------------------------------------------------------------ main loop
    def prepare(s, entry):
        """build the initial state: globals, static constructors, frame of the harness entry"""
        st = State()
        s.init_globals(st)
        names = [fn for fn in s.mod.funcs if fn.startswith('@_GLOBAL__sub_I_')]
        # dynamic initialisers of template static members / inline variables are registered individually in
        # @llvm.global_ctors (not through a _GLOBAL__sub_I_ function): run them too, in registration order
        m = re.search(r'^@llvm\.global_ctors = .*$', s.mod.text if hasattr(s.mod, 'text') else '', re.M)
        if m:
            for fn in re.findall(r'void \(\)\* (@[\w.$"]+)', m.group(0)):
                fn = fn.strip('"')
                if fn not in names and fn in s.mod.funcs: names.append(fn)
        s.cur = st
        s.initializing = True
        for fn in names:
            s.push_frame(st, s.get_func(fn), [], None, None)
            try:
                s.run_path(st)
            except PathEnd:
                pass
            if s.work:
                raise Inconclusive("static constructor forked")
        s.initializing = False
        st.steps = 0
        st.baseline = st.nextobj
        st.frames = []
        s.funcs_executed = set()
        s.push_frame(st, s.get_func(entry), [], None, None)
        s.st0 = st
        return st

    def explore(s, prefix=(), budget_s=1e9, max_pending=1 << 30):
        """explore the subtree below decision prefix; returns list of unexplored prefixes"""
        st = s.st0.fork()
        st.pending = list(prefix)
        s.work = [st]
        t0 = time.time()
        while s.work:
            if (time.time() - t0 > budget_s or len(s.work) > max_pending) and len(s.work) > 0 and s.paths > 0:
                break
            st = s.work.pop()
            s.cur = st
            s.run_one(st)
        out = [list(x.decisions) + list(x.pending) for x in s.work]
        s.work = []
        return out

    def run_one(s, st):
        try:
            s.run_path(st)
        except PathEnd as e:
            s.end_path(st, e.why or 'end')
        except Violation as v:
            s.record_violation(st, v.kind, v.msg, v.model)
            s.end_path(st, 'violation')
        except Inconclusive as e:
            try: iv = [x[2] for x in s.input_values(st, s.model_of(st))][:24]
            except Exception: iv = []
            s.inconclusive.append("%s @ %s inputs=%s" % (e, s.where(st), iv))
            s.end_path(st, 'inconclusive')
        except z3.Z3Exception as e:
            s.inconclusive.append("z3 exception %s @ %s" % (e, s.where(st)))
            s.end_path(st, 'inconclusive')

    def end_path(s, st, why):
        s.paths += 1
        s.paths_ended[why] = s.paths_ended.get(why, 0) + 1
        s.reach |= st.reach
        for u in st.ubnotes:
            s.ubnotes[u] = s.ubnotes.get(u, 0) + 1
        if why == 'return' and len(s.validation) < s.maxsamples and (s.paths % s.sample_every == 0):
            try:
                m = s.model_of(st)
                iv = s.input_values(st, m)
                notes = []
                for x in st.notes:
                    if x.__class__ is int: notes.append(x)
                    else:
                        v = m.eval(bv(x, 64) if not z3.is_fp(x) else z3.fpToIEEEBV(x), model_completion=True)
                        notes.append(z3.simplify(v).as_long())
                s.validation.append({'inputs': iv, 'notes': notes, 'params': s.params})
            except (PathEnd, Inconclusive, z3.Z3Exception, AttributeError):
                pass

    def run_path(s, st):
        maxsteps = s.maxsteps
        while True:
            if st.sched is not None:
                threads_sym.do_sched(s, st)
            fr = st.frames[-1]
            code = fr.code
            ip = fr.ip
            while True:
                ins = code[ip]
                ip += 1
                fr.ip = ip
                if ins[0](s, st, fr, ins):
                    break
            if st.steps > maxsteps:
                raise Violation('nontermination', "step budget %d exceeded" % maxsteps)

    def finish_harness(s, st):
        """called when the harness entry returns: leak check"""
        if s.initializing:
            raise PathEnd('return')
        base = st.baseline
        live = [o for oid, o in st.objs.items() if oid >= base and o.kind == 'heap' and o.live]
        if live:
            # exclude blocks reachable from globals (lazily initialised statics)
            reach = set()
            todo = [o for oid, o in st.objs.items() if o.kind == 'global' and o.live and o.data]
            while todo:
                o = todo.pop()
                for c in o.data:
                    if c.__class__ is tuple and c[0].__class__ is Ptr:
                        t = c[0].obj
                        if t not in reach and t in st.objs:
                            reach.add(t)
                            to = st.objs[t]
                            if to.kind == 'heap' and to.live and to.data: todo.append(to)
            leaked = [o for o in live if o.seq not in reach]
            if leaked:
                raise Violation('leak', "%d heap block(s) still allocated at harness end, first: %s (%d bytes)" % (len(leaked), leaked[0].name, leaked[0].size))
        raise PathEnd('return')


# ====================================================================== instruction handlers
def fp_bits(x):
    """IEEE bit pattern of an FP term; a value that was only moved (bitcast from bits) keeps its exact bits, NaN payload included"""
    if z3.is_app_of(x, z3.Z3_OP_FPA_TO_FP) and x.num_args() == 1 and isinstance(x.arg(0), z3.BitVecRef):
        return x.arg(0)
    return z3.fpToIEEEBV(x)


def _jump(st, fr, bi, moves):
    if moves:
        regs = fr.regs
        if len(moves) == 1:
            regs[moves[0][0]] = regs[moves[0][1]]
        else:
            vals = [regs[src] for _, src in moves]
            i = 0
            for dst, _ in moves:
                regs[dst] = vals[i]; i += 1
    fr.bi = bi
    fr.code = fr.fn.blocks[bi]
    fr.ip = 0
    st.steps += fr.fn.blocklen[bi]
    return True


def _mat(e, st, v, w):
    """materialise an Undef into a fresh unconstrained value (indeterminate value semantics)"""
    if v.mem:
        raise Violation('uninit', "control flow or address depends on uninitialised memory")
    e.ubnote(st, 'use of uninitialised/undef value')
    if w == 1:
        return e.fresh(st, 1) == 1
    return e.fresh(st, w)


def _binprep(e, st, a, b, w, op):
    """common slow path for integer binops: returns (A, B) as z3 terms or raises; or ('done', value)"""
    ca = a.__class__; cb = b.__class__
    if ca is Undef or cb is Undef:
        return (DONE, Undef(w, (ca is Undef and a.mem) or (cb is Undef and b.mem)))
    if ca is PInt or cb is PInt or ca is Ptr or cb is Ptr:
        return (DONE, _ptrarith(e, st, op, a, b, w))
    if ca is Agg or cb is Agg:
        raise Inconclusive("vector arithmetic")
    if w == 1:
        return (to_bool(a), to_bool(b))
    return (bv(a, w), bv(b, w))


def _ptrarith(e, st, op, a, b, w):
    if a.__class__ is Ptr: a = PInt(a)
    if b.__class__ is Ptr: b = PInt(b)
    wa = a.w if a.__class__ is PInt else w
    wb = b.w if b.__class__ is PInt else w
    if wa == w and wb == w and w < 64 and op in ('add', 'sub'):
        # low bits of addresses: differences still cancel exactly modulo 2^w
        xa = a if a.__class__ is PInt else (a if a.__class__ is int else z3.ZeroExt(64 - w, a))
        xb = b if b.__class__ is PInt else (b if b.__class__ is int else z3.ZeroExt(64 - w, b))
        return pint_lin(xa, xb, 1, 1 if op == 'add' else -1, w)
    if w == 64 and wa == 64 and wb == 64:
        if op == 'add': return pint_lin(a, b, 1, 1)
        if op == 'sub': return pint_lin(a, b, 1, -1)
        if op == 'xor' and b.__class__ is int and b == mask(64):      # ~x = -x - 1
            return pint_lin(a, 1, -1, -1)
        if op == 'xor' and a.__class__ is int and a == mask(64):
            return pint_lin(b, 1, -1, -1)
        if op == 'mul' and b.__class__ is int and sx(b, 64) in (1, -1): return pint_lin(a, 0, sx(b, 64), 0)
    if op == 'and' and a.__class__ is PInt and b.__class__ is int and len(a.co) == 1 and a.co[0][1] == 1:
        # alignment tests: objects are 16-aligned in this model
        if b < 16 and a.off.__class__ is int:
            return a.off & b
    if op in ('and', 'or', 'xor') and a.__class__ is PInt and a.co == ((0, 1),):
        return _ptrarith(e, st, op, a.off, b, w)
    # the numeric value of an address is not modelled: the result is an indeterminate value (any use in a
    # branch/address is reported as a UB note)
    return Undef(w)


def _acnorm(kind, mk, A, B):
    """AC-normal form: flatten nested applications of the same operator and order operands by AST id, so that
    two computations of the same sum/xor in different association/order build the identical (hash-consed) term"""
    terms = []
    todo = [B, A]
    while todo:
        x = todo.pop()
        if z3.is_app_of(x, kind): todo.extend(x.children())
        else: terms.append(x)
    consts = [t for t in terms if z3.is_bv_value(t)]
    if len(consts) > 1:
        w = consts[0].size(); m = (1 << w) - 1
        acc = consts[0].as_long()
        for t in consts[1:]:
            v = t.as_long()
            acc = ((acc + v) & m) if kind == z3.Z3_OP_BADD else (acc ^ v) if kind == z3.Z3_OP_BXOR else (acc & v) if kind == z3.Z3_OP_BAND else (acc | v)
        terms = [t for t in terms if not z3.is_bv_value(t)] + [z3.BitVecVal(acc, w)]
    terms.sort(key=lambda t: t.get_id())
    r = terms[0]
    for t in terms[1:]:
        r = mk(r, t)
    return r


def _small(x, d=5):
    if d == 0: return x.num_args() == 0
    for c in x.children():
        if not _small(c, d - 1): return False
    return True


def _norm(e, r, kind=None, mk=None, A=None, B=None):
    """result normalisation: plain mode = z3.simplify; normalising mode (e.simp) = simplify small terms only
    (byte assembly -> Concat), AC-normal form for large ones (z3.simplify fragments big xor/concat terms bitwise)"""
    if not e.simp: return z3.simplify(r)
    if kind is not None: return _acnorm(kind, mk, A, B)
    return r


def h_add(e, st, fr, ins):
    regs = fr.regs; a = regs[ins[3]]; b = regs[ins[4]]
    if a.__class__ is int and b.__class__ is int:
        regs[ins[1]] = (a + b) & ((1 << ins[2]) - 1); return
    A, B = _binprep(e, st, a, b, ins[2], 'add')
    if e.simp and A is not DONE and ins[2] != 1:
        regs[ins[1]] = _acnorm(z3.Z3_OP_BADD, lambda x, y: x + y, A, B); return
    regs[ins[1]] = B if A is DONE else (z3.Xor(A, B) if ins[2] == 1 else A + B)


def h_sub(e, st, fr, ins):
    regs = fr.regs; a = regs[ins[3]]; b = regs[ins[4]]
    if a.__class__ is int and b.__class__ is int:
        regs[ins[1]] = (a - b) & ((1 << ins[2]) - 1); return
    A, B = _binprep(e, st, a, b, ins[2], 'sub')
    regs[ins[1]] = B if A is DONE else (z3.Xor(A, B) if ins[2] == 1 else A - B)


def h_mul(e, st, fr, ins):
    regs = fr.regs; a = regs[ins[3]]; b = regs[ins[4]]
    if a.__class__ is int and b.__class__ is int:
        regs[ins[1]] = (a * b) & ((1 << ins[2]) - 1); return
    A, B = _binprep(e, st, a, b, ins[2], 'mul')
    regs[ins[1]] = B if A is DONE else (z3.And(A, B) if ins[2] == 1 else A * B)


def h_and(e, st, fr, ins):
    regs = fr.regs; a = regs[ins[3]]; b = regs[ins[4]]
    if a.__class__ is int and b.__class__ is int:
        regs[ins[1]] = a & b; return
    w = ins[2]
    if (a.__class__ is int and a == 0) or (b.__class__ is int and b == 0):
        regs[ins[1]] = 0; return
    A, B = _binprep(e, st, a, b, w, 'and')
    if A is DONE: regs[ins[1]] = B; return
    if w == 1:
        regs[ins[1]] = B if A is True else A if B is True else False if (A is False or B is False) else z3.And(A, B)
        return
    regs[ins[1]] = _norm(e, A & B, z3.Z3_OP_BAND, lambda x, y: x & y, A, B)


def h_or(e, st, fr, ins):
    regs = fr.regs; a = regs[ins[3]]; b = regs[ins[4]]
    if a.__class__ is int and b.__class__ is int:
        regs[ins[1]] = a | b; return
    w = ins[2]
    m_ = (1 << w) - 1
    if (a.__class__ is int and a == m_) or (b.__class__ is int and b == m_):
        regs[ins[1]] = m_; return          # x | all-ones: defined whatever the other (possibly indeterminate) operand is
    A, B = _binprep(e, st, a, b, w, 'or')
    if A is DONE: regs[ins[1]] = B; return
    if w == 1:
        regs[ins[1]] = B if A is False else A if B is False else True if (A is True or B is True) else z3.Or(A, B)
        return
    regs[ins[1]] = _norm(e, A | B, z3.Z3_OP_BOR, lambda x, y: x | y, A, B)


def h_xor(e, st, fr, ins):
    regs = fr.regs; a = regs[ins[3]]; b = regs[ins[4]]
    if a.__class__ is int and b.__class__ is int:
        regs[ins[1]] = a ^ b; return
    w = ins[2]
    A, B = _binprep(e, st, a, b, w, 'xor')
    if A is DONE: regs[ins[1]] = B; return
    if w == 1:
        if A is True: r = z3.Not(B) if B.__class__ is not bool else (not B)
        elif B is True: r = z3.Not(A) if A.__class__ is not bool else (not A)
        elif A is False: r = B
        elif B is False: r = A
        else: r = z3.Xor(A, B)
        regs[ins[1]] = (1 if r else 0) if r.__class__ is bool else r
        return
    regs[ins[1]] = _acnorm(z3.Z3_OP_BXOR, lambda x, y: x ^ y, A, B) if e.simp else A ^ B


def _shift(op):
    def h(e, st, fr, ins):
        regs = fr.regs; a = regs[ins[3]]; b = regs[ins[4]]; w = ins[2]
        if a.__class__ is int and b.__class__ is int:
            if b >= w:
                regs[ins[1]] = Undef(w); return
            if op == 'shl': regs[ins[1]] = (a << b) & ((1 << w) - 1)
            elif op == 'lshr': regs[ins[1]] = a >> b
            else: regs[ins[1]] = (sx(a, w) >> b) & ((1 << w) - 1)
            return
        A, B = _binprep(e, st, a, b, w, op)
        if A is DONE: regs[ins[1]] = B; return
        if op == 'shl': r = A << B
        elif op == 'lshr': r = z3.LShR(A, B)
        else: r = A >> B
        regs[ins[1]] = _norm(e, r)
    return h


def _divrem(op):
    def h(e, st, fr, ins):
        regs = fr.regs; a = regs[ins[3]]; b = regs[ins[4]]; w = ins[2]
        if a.__class__ is int and b.__class__ is int:
            if b == 0:
                raise Violation('arith', "division by zero")
            if op == 'udiv': r = a // b
            elif op == 'urem': r = a % b
            else:
                x, y = sx(a, w), sx(b, w)
                if op == 'sdiv':
                    q = abs(x) // abs(y); r = -q if (x < 0) != (y < 0) else q
                else:
                    q = abs(x) % abs(y); r = -q if x < 0 else q
            regs[ins[1]] = r & ((1 << w) - 1); return
        A, B = _binprep(e, st, a, b, w, op)
        if A is DONE: regs[ins[1]] = B; return
        if b.__class__ is not int:
            e.must_hold(st, B != 0, 'arith', "division by zero")
        if op == 'udiv': r = z3.UDiv(A, B)
        elif op == 'urem': r = z3.URem(A, B)
        elif op == 'sdiv': r = A / B
        else: r = z3.SRem(A, B)
        regs[ins[1]] = r
    return h


def h_fbin(e, st, fr, ins):
    regs = fr.regs; op = ins[2]; k = ins[3]; a = regs[ins[4]]; b = regs[ins[5]]
    if a.__class__ is float and b.__class__ is float:
        try:
            if op == 'fadd': r = a + b
            elif op == 'fsub': r = a - b
            elif op == 'fmul': r = a * b
            elif op == 'fdiv':
                if b == 0.0:
                    if a != a or a == 0.0: r = float('nan')
                    else: r = math.copysign(float('inf'), a) * math.copysign(1.0, b)
                else: r = a / b
            else: r = math.fmod(a, b) if b != 0.0 and not math.isinf(a) else float('nan')
        except OverflowError:
            r = float('inf')
        regs[ins[1]] = f32round(r) if k == 'float' else r
        return
    if a.__class__ is Undef or b.__class__ is Undef:
        regs[ins[1]] = Undef(64); return
    A = fpv(a, k); B = fpv(b, k); rm = z3.RNE()
    if op == 'fadd': r = z3.fpAdd(rm, A, B)
    elif op == 'fsub': r = z3.fpSub(rm, A, B)
    elif op == 'fmul': r = z3.fpMul(rm, A, B)
    elif op == 'fdiv': r = z3.fpDiv(rm, A, B)
    else: r = z3.fpRem(A, B)
    regs[ins[1]] = r


def h_fneg(e, st, fr, ins):
    a = fr.regs[ins[3]]
    fr.regs[ins[1]] = -a if a.__class__ is float else (a if a.__class__ is Undef else z3.fpNeg(a))


_ICMP_PY = {'eq': lambda a, b: a == b, 'ne': lambda a, b: a != b, 'ult': lambda a, b: a < b, 'ule': lambda a, b: a <= b,
            'ugt': lambda a, b: a > b, 'uge': lambda a, b: a >= b, 'slt': lambda a, b: a < b, 'sle': lambda a, b: a <= b,
            'sgt': lambda a, b: a > b, 'sge': lambda a, b: a >= b}
_ICMP_Z3 = {'eq': lambda a, b: a == b, 'ne': lambda a, b: a != b, 'ult': z3.ULT, 'ule': z3.ULE, 'ugt': z3.UGT, 'uge': z3.UGE,
            'slt': lambda a, b: a < b, 'sle': lambda a, b: a <= b, 'sgt': lambda a, b: a > b, 'sge': lambda a, b: a >= b}


def h_icmp(e, st, fr, ins):
    regs = fr.regs; pred = ins[2]; w = ins[3]; a = regs[ins[4]]; b = regs[ins[5]]
    if a.__class__ is int and b.__class__ is int:
        if pred[0] == 's':
            a = sx(a, w); b = sx(b, w)
        regs[ins[1]] = 1 if _ICMP_PY[pred](a, b) else 0
        return
    regs[ins[1]] = icmp(e, st, pred, w, a, b)


def icmp(e, st, pred, w, a, b):
    ca = a.__class__; cb = b.__class__
    if ca is Undef or cb is Undef:
        # comparison of an indeterminate value: the result is indeterminate too; it is reported only if control flow
        # or an address ends up depending on it (compilers hoist such loads past the test that guards them)
        return Undef(1, (ca is Undef and a.mem) or (cb is Undef and b.mem))
    if ca is PInt or cb is PInt:
        if pred in ('eq', 'ne') or (ca is PInt and cb is PInt):
            d = pint_lin(a if ca is not Ptr else PInt(a), b if cb is not Ptr else PInt(b), 1, -1)
            if d.__class__ is not PInt:
                return icmp(e, st, pred, 64, d, 0) if pred in ('eq', 'ne') else icmp(e, st, {'ult': 'slt', 'ule': 'sle', 'ugt': 'sgt', 'uge': 'sge'}.get(pred, pred), 64, d, 0)
        def plain(x):
            return x.w == 64 and len(x.co) == 1 and x.co[0][1] == 1
        if ca is PInt:
            a = a.p if plain(a) else _mat(e, st, Undef(a.w), a.w); ca = a.__class__
        if cb is PInt:
            b = b.p if plain(b) else _mat(e, st, Undef(b.w), b.w); cb = b.__class__
    if ca in (Ptr, FnPtr) or cb in (Ptr, FnPtr):
        if ca is int: a = Ptr(0, a); ca = Ptr
        if cb is int: b = Ptr(0, b); cb = Ptr
        if ca is FnPtr or cb is FnPtr:
            same = ca is cb and a.name == b.name
            if pred == 'eq': return 1 if same else 0
            if pred == 'ne': return 0 if same else 1
            raise Inconclusive("relational compare of function pointers")
        if ca is not Ptr or cb is not Ptr:
            raise Inconclusive("compare pointer with %r" % ((a, b),))
        if a.obj != b.obj:
            if pred == 'eq': return 0
            if pred == 'ne': return 1
            # Different objects: the address order is layout dependent.  The engine fixes one legal layout - objects
            # in allocation order, null lowest - so that idioms such as (p >= base && p < base + n) evaluate as on a
            # flat address space; recorded as a note, not a violation.
            e.ubnote(st, 'relational comparison of pointers into different objects (resolved by allocation order)')
            lt = a.obj < b.obj
            return 1 if {'ult': lt, 'ule': lt, 'ugt': not lt, 'uge': not lt, 'slt': lt, 'sle': lt, 'sgt': not lt, 'sge': not lt}[pred] else 0
        a = a.off; b = b.off; w = 64
        if a.__class__ is int: a &= mask(64)
        if b.__class__ is int: b &= mask(64)
        if a.__class__ is int and b.__class__ is int:
            if pred[0] == 's': a = sx(a, 64); b = sx(b, 64)
            return 1 if _ICMP_PY[pred](a, b) else 0
    if w == 1:
        A = to_bool(a); B = to_bool(b)
        if pred == 'eq': r = A == B
        elif pred == 'ne': r = z3.Xor(A, B) if not (A.__class__ is bool and B.__class__ is bool) else (A != B)
        else: raise Inconclusive("ordered compare on i1")
        if r.__class__ is bool: return 1 if r else 0
        return r
    if ca is Agg or cb is Agg:
        raise Inconclusive("vector compare")
    A = bv(a, w); B = bv(b, w)
    r = z3.simplify(_ICMP_Z3[pred](A, B))
    if z3.is_true(r): return 1
    if z3.is_false(r): return 0
    return r


def h_fcmp(e, st, fr, ins):
    regs = fr.regs; pred = ins[2]; k = ins[3]; a = regs[ins[4]]; b = regs[ins[5]]
    if a.__class__ is float and b.__class__ is float:
        un = (a != a) or (b != b)
        r = {'oeq': a == b, 'ogt': a > b, 'oge': a >= b, 'olt': a < b, 'ole': a <= b, 'one': a != b and not un, 'ord': not un,
             'ueq': un or a == b, 'ugt': un or a > b, 'uge': un or a >= b, 'ult': un or a < b, 'ule': un or a <= b,
             'une': un or a != b, 'uno': un, 'true': True, 'false': False}[pred]
        regs[ins[1]] = 1 if r else 0
        return
    if a.__class__ is Undef: a = z3.fpBVToFP(e.fresh(st, 64 if k == 'double' else 32), fsort(k))
    if b.__class__ is Undef: b = z3.fpBVToFP(e.fresh(st, 64 if k == 'double' else 32), fsort(k))
    A = fpv(a, k); B = fpv(b, k)
    un = z3.Or(z3.fpIsNaN(A), z3.fpIsNaN(B))
    r = {'oeq': lambda: z3.fpEQ(A, B), 'ogt': lambda: z3.fpGT(A, B), 'oge': lambda: z3.fpGEQ(A, B), 'olt': lambda: z3.fpLT(A, B),
         'ole': lambda: z3.fpLEQ(A, B), 'une': lambda: z3.Not(z3.fpEQ(A, B)), 'one': lambda: z3.And(z3.Not(un), z3.Not(z3.fpEQ(A, B))),
         'ord': lambda: z3.Not(un), 'uno': lambda: un, 'ueq': lambda: z3.Or(un, z3.fpEQ(A, B)), 'ult': lambda: z3.Not(z3.fpGEQ(A, B)),
         'ule': lambda: z3.Not(z3.fpGT(A, B)), 'ugt': lambda: z3.Not(z3.fpLEQ(A, B)), 'uge': lambda: z3.Not(z3.fpLT(A, B))}[pred]()
    regs[ins[1]] = r


# ---- casts: (handler, dst, from_w/kind, to_w/kind, operand)
def h_trunc(e, st, fr, ins):
    v = fr.regs[ins[4]]; tw = ins[3]
    c = v.__class__
    if c is int: r = v & ((1 << tw) - 1)
    elif c is Undef: r = Undef(tw, v.mem)
    elif c is PInt:
        r = PInt(co=v.co, off=v.off, w=tw) if tw >= 16 else Undef(tw)     # low bits of an address: kept symbolic so that differences cancel
    else:
        r = e.S(z3.Extract(tw - 1, 0, v))
        if tw == 1: r = e.S(r == 1)
        if z3.is_bv_value(r): r = r.as_long()
    fr.regs[ins[1]] = r


def h_zext(e, st, fr, ins):
    v = fr.regs[ins[4]]; fw = ins[2]; tw = ins[3]
    c = v.__class__
    if c is int: r = v
    elif c is Undef: r = Undef(tw, v.mem)
    elif isinstance(v, z3.BoolRef): r = z3.If(v, z3.BitVecVal(1, tw), z3.BitVecVal(0, tw))
    elif c is PInt: r = v
    else: r = z3.ZeroExt(tw - fw, v)
    fr.regs[ins[1]] = r


def h_sext(e, st, fr, ins):
    v = fr.regs[ins[4]]; fw = ins[2]; tw = ins[3]
    c = v.__class__
    if c is int: r = sx(v, fw) & ((1 << tw) - 1)
    elif c is Undef: r = Undef(tw, v.mem)
    elif isinstance(v, z3.BoolRef): r = z3.If(v, z3.BitVecVal(mask(tw), tw), z3.BitVecVal(0, tw))
    elif c is PInt: r = v
    else: r = z3.SignExt(tw - fw, v)
    fr.regs[ins[1]] = r


def h_bitcast(e, st, fr, ins):
    fr.regs[ins[1]] = fr.regs[ins[4]]


def h_bitcast_fi(e, st, fr, ins):
    v = fr.regs[ins[4]]; f = ins[2]; t = ins[3]
    c = v.__class__
    if c is Undef: r = v
    elif isinstance(t, str):     # int -> float
        n = 8 if t == 'double' else 4
        if c is int: r = struct.unpack('<d' if n == 8 else '<f', v.to_bytes(n, 'little'))[0]
        else: r = z3.fpBVToFP(v, fsort(t))
    else:                        # float -> int
        n = 8 if f == 'double' else 4
        if c is float: r = int.from_bytes(struct.pack('<d' if n == 8 else '<f', v), 'little')
        else: r = fp_bits(v)
    fr.regs[ins[1]] = r


def h_ptrtoint(e, st, fr, ins):
    v = fr.regs[ins[4]]; tw = ins[3]
    if v.__class__ is Ptr and v.obj == 0 and v.off.__class__ is int:
        r = v.off & mask(tw)
    elif v.__class__ in (Ptr, FnPtr):
        if tw != 64: raise Inconclusive("ptrtoint to i%d" % tw)
        r = PInt(v)
    else: r = v
    fr.regs[ins[1]] = r


def h_inttoptr(e, st, fr, ins):
    v = fr.regs[ins[4]]
    if v.__class__ is PInt: r = v.p
    elif v.__class__ is int: r = NULL if v == 0 else Ptr(0, v)
    elif v.__class__ is Undef: r = v
    else: r = Ptr(0, v)
    fr.regs[ins[1]] = r


def h_sitofp(e, st, fr, ins):
    v = fr.regs[ins[4]]; fw = ins[2]; k = ins[3]
    if v.__class__ is int:
        r = float(sx(v, fw)); r = f32round(r) if k == 'float' else r
    elif v.__class__ is Undef: r = Undef(64)
    else: r = z3.fpSignedToFP(z3.RNE(), bv(v, fw), fsort(k))
    fr.regs[ins[1]] = r


def h_uitofp(e, st, fr, ins):
    v = fr.regs[ins[4]]; fw = ins[2]; k = ins[3]
    if v.__class__ is int:
        r = float(v); r = f32round(r) if k == 'float' else r
    elif v.__class__ is Undef: r = Undef(64)
    else: r = z3.fpUnsignedToFP(z3.RNE(), bv(v, fw), fsort(k))
    fr.regs[ins[1]] = r


def _fptoint(signed):
    def h(e, st, fr, ins):
        v = fr.regs[ins[4]]; tw = ins[3]
        if v.__class__ is float:
            if v != v or math.isinf(v):
                r = Undef(tw)
            else:
                i = int(v)
                lo, hi = (-(1 << (tw - 1)), (1 << (tw - 1)) - 1) if signed else (0, (1 << tw) - 1)
                r = Undef(tw) if (i < lo or i > hi) else i & mask(tw)
                if r.__class__ is Undef and tw == 32 and signed:
                    r = 0x80000000      # x86 cvttsd2si result ("integer indefinite")
                elif r.__class__ is Undef and tw == 64 and signed:
                    r = 1 << 63
        elif v.__class__ is Undef: r = Undef(tw)
        else:
            r = z3.fpToSBV(z3.RTZ(), v, z3.BitVecSort(tw)) if signed else z3.fpToUBV(z3.RTZ(), v, z3.BitVecSort(tw))
        fr.regs[ins[1]] = r
    return h


def h_fpext(e, st, fr, ins):
    v = fr.regs[ins[4]]
    fr.regs[ins[1]] = v if v.__class__ in (float, Undef) else z3.fpFPToFP(z3.RNE(), v, z3.Float64())


def h_fptrunc(e, st, fr, ins):
    v = fr.regs[ins[4]]
    fr.regs[ins[1]] = f32round(v) if v.__class__ is float else v if v.__class__ is Undef else z3.fpFPToFP(z3.RNE(), v, z3.Float32())


def h_select(e, st, fr, ins):
    regs = fr.regs; c = regs[ins[2]]
    if c.__class__ is int:
        regs[ins[1]] = regs[ins[3]] if c & 1 else regs[ins[4]]; return
    a = regs[ins[3]]; b = regs[ins[4]]
    if c.__class__ is Undef:
        c = _mat(e, st, c, 1)
    if a is b:
        regs[ins[1]] = a; return
    cls = ins[5]; w = ins[6]
    ca = a.__class__; cb = b.__class__
    if cls == 'i' and ca not in (PInt, Undef, Agg) and cb not in (PInt, Undef, Agg):
        if w == 1:
            A = to_bool(a); B = to_bool(b)
            A = z3.BoolVal(A) if A.__class__ is bool else A
            B = z3.BoolVal(B) if B.__class__ is bool else B
            regs[ins[1]] = z3.simplify(z3.If(c, A, B)); return
        regs[ins[1]] = z3.If(c, bv(a, w), bv(b, w)); return
    if cls == 'f' and ca is not Undef and cb is not Undef:
        regs[ins[1]] = z3.If(c, fpv(a, w), fpv(b, w)); return
    if cls == 'p' and ca is Ptr and cb is Ptr and a.obj == b.obj:
        regs[ins[1]] = Ptr(a.obj, z3.If(c, bv(a.off, 64), bv(b.off, 64))); return
    # pointers into different objects, undef arms ...: fork
    regs[ins[1]] = a if e.decide(st, c) else b


def h_copy(e, st, fr, ins):
    fr.regs[ins[1]] = fr.regs[ins[2]]


def h_load(e, st, fr, ins):
    p = fr.regs[ins[2]]
    if p.__class__ is Ptr and p.off.__class__ is int and ins[3] == 'i':
        o = st.objs.get(p.obj)
        n = ins[4]
        if o is not None and o.live and p.off >= 0 and p.off + n <= o.size:
            try:
                v = int.from_bytes(bytes(o.data[p.off:p.off + n]), 'little')
                w = ins[5]
                fr.regs[ins[1]] = v if w == 8 * n else v & ((1 << w) - 1)
                return
            except (TypeError, ValueError):
                pass
    fr.regs[ins[1]] = e.load(st, p, ins[3], ins[4], ins[5])


def h_store(e, st, fr, ins):
    e.store(st, fr.regs[ins[2]], fr.regs[ins[3]], ins[4], ins[5], ins[6])


def h_gep(e, st, fr, ins):
    regs = fr.regs
    base = regs[ins[2]]
    off = ins[3]
    for r, sz, w in ins[4]:
        v = regs[r]
        if v.__class__ is int:
            off = off + sx(v, w) * sz
        elif v.__class__ is Undef:
            v = _mat(e, st, v, w)
            off = off + (z3.SignExt(64 - w, v) if w < 64 else v) * sz
        elif isinstance(v, z3.BoolRef):
            raise Inconclusive("gep index i1")
        else:
            x = z3.SignExt(64 - w, v) if w < 64 else v
            off = off + (x * sz if sz != 1 else x)
    if base.__class__ is not Ptr:
        if base.__class__ is Undef:
            regs[ins[1]] = base; return      # speculative address arithmetic on an indeterminate pointer: reported only if dereferenced
        if base.__class__ is PInt: base = base.p
        elif base.__class__ is FnPtr:
            if off == 0: regs[ins[1]] = base; return
            raise Inconclusive("gep on function pointer")
        else: raise Inconclusive("gep on %r" % (base,))
    no = base.off + off
    if no.__class__ is not int and base.off.__class__ is int and off.__class__ is int:
        no = no
    regs[ins[1]] = Ptr(base.obj, no)


def h_alloca(e, st, fr, ins):
    size = ins[2]
    if ins[4] is not None:
        c = fr.regs[ins[4]]
        if c.__class__ is not int: c = e.concretize(st, c, what='alloca count')
        size *= c
    p = st.alloc(max(size, 1), 'stack', ins[3])
    fr.allocas.append(p.obj)
    fr.regs[ins[1]] = p


def h_br(e, st, fr, ins):
    return _jump(st, fr, ins[2], ins[3])


def h_condbr(e, st, fr, ins):
    c = fr.regs[ins[2]]
    if c.__class__ is not int:
        if c.__class__ is Undef:
            c = _mat(e, st, c, 1)
        c = e.decide(st, c)
    if c:
        return _jump(st, fr, ins[3], ins[4])
    return _jump(st, fr, ins[5], ins[6])


def h_switch(e, st, fr, ins):
    v = fr.regs[ins[2]]
    if v.__class__ is Undef:
        v = _mat(e, st, v, ins[3])
    if v.__class__ is not int:
        # fork over case values that are feasible; default = none of them
        w = ins[3]
        for cv, bi, mv in ins[4]:
            if e.decide(st, v == z3.BitVecVal(cv, w)):
                return _jump(st, fr, bi, mv)
        d = ins[5]
        return _jump(st, fr, d[0], d[1])
    for cv, bi, mv in ins[4]:
        if cv == v:
            return _jump(st, fr, bi, mv)
    d = ins[5]
    return _jump(st, fr, d[0], d[1])


def h_ret(e, st, fr, ins):
    rv = fr.regs[ins[2]] if ins[2] != VOID else None
    for oid in fr.allocas:
        o = st.wobj(oid); o.live = False; o.data = None
    st.frames.pop()
    if not st.frames:
        if st.threads is not None:
            threads_sym.thread_exit(e, st, rv)
            return True
        e.finish_harness(st)
    caller = st.frames[-1]
    if fr.retdst is not None:
        caller.regs[fr.retdst] = rv
    if fr.normal is not None:
        _jump(st, caller, fr.normal[0], fr.normal[1])
    return True


def h_call(e, st, fr, ins):
    cal = ins[2]
    regs = fr.regs
    if cal.__class__ is not str:
        f = regs[cal]
        if f.__class__ is not FnPtr:
            if f.__class__ is Undef: raise Violation('uninit', "indirect call through uninitialised pointer")
            raise Violation('memory', "indirect call through non-function %r" % (f,))
        cal = f.name
        tgt = None
    else:
        tgt = ins[6][0]
    if tgt is None:
        fn = e.mod.funcs.get(cal)
        if fn is not None and fn.defined and cal[1:] not in e.ext_override:
            tgt = ('f', e.get_func(cal))
        else:
            h = e.ext.get(cal[1:])
            if h is None:
                h = e.ext_prefix(cal[1:])
            if h is None:
                raise Inconclusive("call to unmodelled external function %s" % cal)
            tgt = ('x', h, cal[1:])
        if ins[2].__class__ is str:
            ins[6][0] = tgt
    args = [None if a is None else regs[a] for a in ins[3]]
    if tgt[0] == 'f':
        e.push_frame(st, tgt[1], args, ins[1], ins[4])
        return True
    e.externs_used.add(tgt[2])
    r = tgt[1](e, st, fr, args, tgt[2])
    if r is SWITCHED:        # the thread model rewound this call and asked for a scheduling step
        return True
    if r is CALLED:          # the builtin pushed a frame itself (callbacks)
        st.frames[-1].retdst = ins[1]; st.frames[-1].normal = ins[4]
        return True
    if ins[1] is not None:
        regs[ins[1]] = r
    if ins[4] is not None:
        return _jump(st, fr, ins[4][0], ins[4][1])


CALLED = object()
DONE = object()
SWITCHED = object()


def h_atomicrmw(e, st, fr, ins):
    regs = fr.regs; op = ins[2]; p = regs[ins[3]]; v = regs[ins[4]]; n = ins[5]; w = ins[6]
    old = e.load(st, p, 'i', n, w)
    if op == 'xchg': new = v
    else:
        if old.__class__ is int and v.__class__ is int:
            m = mask(w)
            new = {'add': (old + v) & m, 'sub': (old - v) & m, 'and': old & v, 'or': old | v, 'xor': old ^ v}[op]
        elif old.__class__ is Undef or v.__class__ is Undef:
            new = Undef(w)
        else:
            A = bv(old, w); B = bv(v, w)
            new = {'add': lambda: A + B, 'sub': lambda: A - B, 'and': lambda: A & B, 'or': lambda: A | B, 'xor': lambda: A ^ B}[op]()
    e.store(st, p, new, 'i', n, w)
    regs[ins[1]] = old


def h_cmpxchg(e, st, fr, ins):
    regs = fr.regs; p = regs[ins[2]]; cmpv = regs[ins[3]]; new = regs[ins[4]]; cls = ins[5]; n = ins[6]; w = ins[7]
    old = e.load(st, p, cls, n, w)
    eq = icmp(e, st, 'eq', w if cls == 'i' else 0, old, cmpv)
    if eq.__class__ is not int:
        eq = 1 if e.decide(st, eq) else 0
    if eq:
        e.store(st, p, new, cls, n, w)
    regs[ins[1]] = Agg([old, eq])


def h_extractvalue(e, st, fr, ins):
    a = fr.regs[ins[2]]
    for i in ins[3]:
        if a.__class__ is Undef: break
        a = a[i]
    fr.regs[ins[1]] = a


def h_insertvalue(e, st, fr, ins):
    a = fr.regs[ins[2]]
    if a.__class__ is Undef:
        raise Inconclusive("insertvalue into scalar undef")

    def ins_(a, idx, v):
        l = Agg(a)
        l[idx[0]] = v if len(idx) == 1 else ins_(a[idx[0]], idx[1:], v)
        return l
    fr.regs[ins[1]] = ins_(a, ins[4], fr.regs[ins[3]])


def h_unreachable(e, st, fr, ins):
    raise Violation('unreachable', "reached 'unreachable'")


def h_landingpad(e, st, fr, ins):
    raise PathEnd('exception')


def h_resume(e, st, fr, ins):
    raise PathEnd('exception')


HANDLERS = {
    'bin_add': h_add, 'bin_sub': h_sub, 'bin_mul': h_mul, 'bin_and': h_and, 'bin_or': h_or, 'bin_xor': h_xor,
    'bin_shl': _shift('shl'), 'bin_lshr': _shift('lshr'), 'bin_ashr': _shift('ashr'),
    'bin_udiv': _divrem('udiv'), 'bin_sdiv': _divrem('sdiv'), 'bin_urem': _divrem('urem'), 'bin_srem': _divrem('srem'),
    'fbin': h_fbin, 'fneg': h_fneg, 'icmp': h_icmp, 'fcmp': h_fcmp,
    'cast_trunc': h_trunc, 'cast_zext': h_zext, 'cast_sext': h_sext, 'cast_bitcast': h_bitcast, 'cast_addrspacecast': h_bitcast,
    'cast_bitcast_fi': h_bitcast_fi, 'cast_ptrtoint': h_ptrtoint, 'cast_inttoptr': h_inttoptr,
    'cast_sitofp': h_sitofp, 'cast_uitofp': h_uitofp, 'cast_fptosi': _fptoint(True), 'cast_fptoui': _fptoint(False),
    'cast_fpext': h_fpext, 'cast_fptrunc': h_fptrunc,
    'select': h_select, 'copy': h_copy, 'load': h_load, 'store': h_store, 'gep': h_gep, 'alloca': h_alloca,
    'br': h_br, 'condbr': h_condbr, 'switch': h_switch, 'ret': h_ret, 'call': h_call,
    'atomicrmw': h_atomicrmw, 'cmpxchg': h_cmpxchg, 'extractvalue': h_extractvalue, 'insertvalue': h_insertvalue,
    'unreachable': h_unreachable, 'landingpad': h_landingpad, 'resume': h_resume,
}
_OPF = {}
for _k in ('bin_add', 'bin_sub', 'bin_mul', 'bin_and', 'bin_or', 'bin_xor', 'bin_shl', 'bin_lshr', 'bin_ashr', 'bin_udiv', 'bin_sdiv', 'bin_urem', 'bin_srem'):
    _OPF[HANDLERS[_k]] = (3, 4)
_OPF[h_fbin] = (4, 5); _OPF[h_fneg] = (3,); _OPF[h_icmp] = (4, 5); _OPF[h_fcmp] = (4, 5)
for _k in [k for k in HANDLERS if k.startswith('cast_')]:
    _OPF[HANDLERS[_k]] = (4,)
_OPF[h_select] = (2, 3, 4); _OPF[h_copy] = (2,); _OPF[h_load] = (2,); _OPF[h_store] = (2, 3); _OPF[h_gep] = (2,)
_OPF[h_alloca] = (4,); _OPF[h_ret] = (2,); _OPF[h_atomicrmw] = (3, 4); _OPF[h_cmpxchg] = (2, 3, 4)
_OPF[h_extractvalue] = (2,); _OPF[h_insertvalue] = (2, 3)
h_atomicrmw_plain = h_atomicrmw; h_cmpxchg_plain = h_cmpxchg
import threads_sym
HANDLERS['vload'] = threads_sym.h_vload; HANDLERS['vstore'] = threads_sym.h_vstore
HANDLERS['atomicrmw'] = threads_sym.h_atomicrmw; HANDLERS['cmpxchg'] = threads_sym.h_cmpxchg
_OPF[threads_sym.h_vload] = (2,); _OPF[threads_sym.h_vstore] = (2, 3)
_OPF[threads_sym.h_atomicrmw] = (3, 4); _OPF[threads_sym.h_cmpxchg] = (2, 3, 4)
HANDLERS['_operand_fields'] = _OPF
