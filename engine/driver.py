#!/usr/bin/env python3
"""Check driver: builds IR + native binary from /repo's working tree, distributes the path
exploration of every harness instance over worker processes, replays counterexamples and
sampled path models natively, writes the evidence file, prints the verdict lines."""
import sys, os, time, json, re, subprocess, tempfile, shutil, importlib.util, multiprocessing, traceback, hashlib, random

HERE = os.path.dirname(os.path.abspath(__file__))
VERIF = os.path.dirname(HERE)
sys.path.insert(0, HERE)
import build, ir

_MOD = {}        # module key -> parsed module (set before the pool forks)
_ENG = {}        # worker-local: instance key -> Engine


def _worker(task):
    import llsym
    key, modkey, entry, params, opts, prefix, budget, maxpend = task
    try:
        eng = _ENG.get(key)
        if eng is None:
            if len(_ENG) > 3: _ENG.clear()
            eng = llsym.Engine(_MOD[modkey], params=params, maxsteps=opts.get('maxsteps', 2000000), timeout_ms=opts.get('timeout_ms', 180000))
            eng.clock_step_us = opts.get('clock_step_us', 1000000)
            eng.maxsamples = opts.get('samples', 4)
            eng.simp = opts.get('simplify', False)
            eng.prepare('@' + entry)
            _ENG[key] = eng
        # reset per-task accumulators
        eng.nq = eng.nq_sat = eng.nq_unsat = eng.nq_unknown = 0; eng.tq = 0.0
        eng.paths = 0; eng.paths_ended = {}; eng.violations = []; eng.inconclusive = []; eng.ubnotes = {}
        eng.reach = set(); eng.validation = []; eng.nasserts = 0
        t0 = time.time()
        pend = eng.explore(prefix, budget, maxpend)
        return {'key': key, 'ok': True, 'pending': pend, 'paths': eng.paths, 'ended': eng.paths_ended, 'nq': eng.nq, 'sat': eng.nq_sat,
                'unsat': eng.nq_unsat, 'unknown': eng.nq_unknown, 'tq': eng.tq, 'viol': eng.violations, 'inconclusive': eng.inconclusive[:50],
                'ubnotes': eng.ubnotes, 'reach': sorted(eng.reach), 'validation': eng.validation, 'funcs': sorted(eng.funcs_executed),
                'externs': sorted(eng.externs_used), 'wall': time.time() - t0, 'asserts': eng.nasserts}
    except Exception as e:
        return {'key': key, 'ok': False, 'error': '%s: %s\n%s' % (type(e).__name__, e, traceback.format_exc()[-1500:])}


def load_spec(prop):
    path = os.path.join(VERIF, 'harness', prop, 'spec.py')
    sp = importlib.util.spec_from_file_location('spec_' + prop, path)
    m = importlib.util.module_from_spec(sp)
    sp.loader.exec_module(m)
    return m


def replay_file_text(params, inputs):
    return 'params ' + ' '.join(str(p) for p in params) + '\n' + '\n'.join(str(v[2]) for v in inputs) + '\n'


NATIVE_ENV = {}      # extra environment of native runs (spec.NATIVE_ENV), e.g. delays at the guarded schedule hooks


NATIVE_TIMEOUT = [120]


def run_native(exe, entry, params, inputs, timeout=None):
    """-> (status, notes, output); status in ok / assume / assert / sanitizer / crash / timeout"""
    if timeout is None: timeout = NATIVE_TIMEOUT[0]
    d = tempfile.mkdtemp(prefix='vp_nat_', dir=os.environ.get('VP_TMP', '/tmp'))
    try:
        rp = d + '/in.txt'; nt = d + '/notes.txt'
        open(rp, 'w').write(replay_file_text(params, inputs))
        env = dict(os.environ, **NATIVE_ENV)
        env.update(VP_REPLAY=rp, VP_NOTES=nt, ASAN_OPTIONS='detect_leaks=1:abort_on_error=0:exitcode=98:allocator_may_return_null=1:max_allocation_size_mb=4096',
                   UBSAN_OPTIONS='print_stacktrace=1:halt_on_error=1:exitcode=97', LSAN_OPTIONS='exitcode=96')
        try:
            r = subprocess.run([exe, entry], stdout=subprocess.PIPE, stderr=subprocess.STDOUT, env=env, timeout=timeout, cwd=d)
            out = r.stdout.decode('latin1')[-3000:]
            rc = r.returncode
        except subprocess.TimeoutExpired as te:
            po = (te.stdout or b'').decode('latin1')[-3000:]
            if 'ERROR: AddressSanitizer' in po:      # a report from a thread that then hangs in the sanitizer's exit path
                return 'sanitizer', [], po
            return 'timeout', [], po
        notes = []
        if os.path.exists(nt):
            notes = [int(x) for x in open(nt).read().split()]
        if rc == 0: st = 'ok'
        elif rc == 77: st = 'assume'
        elif rc == 99: st = 'assert'
        elif rc in (96, 97, 98) or 'Sanitizer' in out or 'runtime error' in out: st = 'sanitizer'
        elif rc < 0: st = 'crash(%d)' % rc
        else: st = 'error(%d)' % rc
        return st, notes, out
    finally:
        shutil.rmtree(d, ignore_errors=True)


def match_known(known, prop, v):
    for k in known:
        if k.get('status', 'open') != 'open': continue
        if k['property'] != prop: continue
        if 'entry' in k and not re.fullmatch(k['entry'], v['entry']): continue
        if 'kind' in k and k['kind'] != v['kind']: continue
        if 'msg' in k and not re.search(k['msg'], v['msg']): continue
        if 'site' in k and not re.search(k['site'], v['site']): continue
        if 'param_eq' in k and not all(len(v['params']) > i and v['params'][i] == x for i, x in k['param_eq']): continue
        return k
    return None


def main(argv):
    import argparse
    ap = argparse.ArgumentParser()
    ap.add_argument('prop'); ap.add_argument('--tier', default=os.environ.get('VERIF_TIER', 'quick'))
    ap.add_argument('--replay'); ap.add_argument('--jobs', type=int, default=int(os.environ.get('VERIF_JOBS', '16')))
    ap.add_argument('--only', default=''); ap.add_argument('--keep', action='store_true'); ap.add_argument('-v', action='store_true')
    a = ap.parse_args(argv)
    prop = a.prop
    seed = int(os.environ.get('VERIF_SEED', '0') or 0)
    t_start = time.time()
    spec = load_spec(prop)
    NATIVE_ENV.update(getattr(spec, 'NATIVE_ENV', {}))
    NATIVE_TIMEOUT[0] = getattr(spec, 'NATIVE_TIMEOUT', 120)
    if hasattr(spec, 'main'):
        return spec.main(a)
    workdir = tempfile.mkdtemp(prefix='vp_%s_' % prop, dir=os.environ.get('VP_TMP', '/tmp'))
    os.environ['VP_TMP'] = workdir
    try:
        return run_check(a, prop, spec, workdir, seed, t_start)
    finally:
        if not a.keep:
            shutil.rmtree(workdir, ignore_errors=True)


def run_check(a, prop, spec, workdir, seed, t_start):
    tier = a.tier
    groups = spec.GROUPS if hasattr(spec, 'GROUPS') else [{'name': 'main', 'sources': spec.SOURCES, 'harness': spec.HARNESS, 'env': getattr(spec, 'ENV', ['vlibc.c'])}]
    from concurrent.futures import ThreadPoolExecutor
    # ---- build (IR and native, all groups, in parallel)
    tb = time.time()
    with ThreadPoolExecutor(8) as ex:
        futs = []
        for g in groups:
            h = os.path.join(VERIF, 'harness', prop, g['harness'])
            extra = [os.path.join(VERIF, 'harness', prop, x) if not x.startswith('/') else x for x in g.get('extra_cpp', [])]
            nat_extra = extra + [os.path.join(VERIF, 'env', x) for x in g.get('native_extra', getattr(spec, 'NATIVE_EXTRA', []))]
            futs.append((g, 'ir', ex.submit(build.build_ir, workdir + '/ir_' + g['name'], g['sources'], h, g.get('env', ['vlibc.c']), extra, g.get('defines', []))))
            futs.append((g, 'nat', ex.submit(build.build_native, workdir + '/nat_' + g['name'], g['sources'], h, nat_extra, g.get('defines', []) + list(getattr(spec, 'NATIVE_DEFINES', [])))))
        for g, k, f in futs:
            g[k] = f.result()
    for g in groups:
        _MOD[g['name']] = ir.parse_module(open(g['ir']).read())
    build_s = time.time() - tb
    if a.replay:
        return do_replay(a, prop, groups)
    # ---- instances
    insts = []
    for inst in spec.instances(tier):
        inst.setdefault('group', groups[0]['name']); inst.setdefault('params', []); inst.setdefault('opts', {})
        if a.only and not re.search(a.only, inst['entry']): continue
        inst['key'] = '%s:%s(%s)' % (inst['group'], inst['entry'], ','.join(map(str, inst['params'])))
        insts.append(inst)
    bykey = {i['key']: i for i in insts}
    agg = {i['key']: {'paths': 0, 'nq': 0, 'sat': 0, 'unsat': 0, 'unknown': 0, 'tq': 0.0, 'ended': {}, 'viol': [], 'inconclusive': [], 'ubnotes': {},
                      'reach': set(), 'validation': [], 'funcs': set(), 'externs': set(), 'wall': 0.0, 'errors': [], 'asserts': 0, 'tasks': 0} for i in insts}
    # ---- exploration
    ctx = multiprocessing.get_context('fork')
    pool = ctx.Pool(a.jobs)
    queue = []
    for i in insts:
        queue.append((i['key'], i['group'], i['entry'], i['params'], i['opts'], [], 3.0, 64))
    inflight = 0
    import collections
    done_q = collections.deque()
    results = []
    deadline = time.time() + getattr(spec, 'BUDGET_S', {}).get(tier, 3600)

    def cb(r):
        done_q.append(r)
    timed_out = False
    while queue or inflight:
        while queue and inflight < a.jobs * 2:
            t = queue.pop()
            pool.apply_async(_worker, (t,), callback=cb, error_callback=lambda e: done_q.append({'key': None, 'ok': False, 'error': str(e)}))
            inflight += 1
        if not done_q:
            time.sleep(0.01)
            if time.time() > deadline:
                timed_out = True; break
            continue
        r = done_q.popleft(); inflight -= 1
        if not r['ok']:
            k = r.get('key')
            (agg[k]['errors'] if k in agg else agg[insts[0]['key']]['errors']).append(r['error'])
            continue
        g = agg[r['key']]
        inst = bykey[r['key']]
        for k in ('paths', 'nq', 'sat', 'unsat', 'unknown', 'tq', 'wall', 'asserts'): g[k] += r[k]
        g['tasks'] += 1
        for k, v in r['ended'].items(): g['ended'][k] = g['ended'].get(k, 0) + v
        for k, v in r['ubnotes'].items(): g['ubnotes'][k] = g['ubnotes'].get(k, 0) + v
        g['viol'].extend(r['viol']); g['inconclusive'].extend('%s [%s]' % (m, r['key']) for m in r['inconclusive'])
        g['reach'].update(r['reach']); g['funcs'].update(r['funcs']); g['externs'].update(r['externs'])
        if len(g['validation']) < inst['opts'].get('samples', 4) * 4: g['validation'].extend(r['validation'])
        big = len(queue) + inflight > a.jobs * 3
        for pfx in r['pending']:
            queue.append((r['key'], inst['group'], inst['entry'], inst['params'], inst['opts'], pfx, 20.0 if big else 4.0, 1 << 30 if big else 48))
    pool.terminate(); pool.join()
    explore_s = time.time() - t_start - build_s
    # ---- native validation of sampled path models + replay of violations
    known = []
    kf = os.path.join(VERIF, 'known_findings.json')
    if os.path.exists(kf):
        known = json.load(open(kf)).get('findings', [])
    nat = {g['name']: g['nat'] for g in groups}
    validated = 0; val_mismatch = []
    jobs = []
    for key, g in agg.items():
        inst = bykey[key]
        for v in g['validation'][:inst['opts'].get('samples', 4)]:
            jobs.append(('val', key, v))
        seen = set()
        for v in g['viol']:
            v['entry'] = inst['entry']
            sig = (v['kind'], v['msg'], v['site'].split('<')[0])
            if sig in seen: continue
            seen.add(sig)
            jobs.append(('viol', key, v))

    def runjob(j):
        kind, key, v = j
        inst = bykey[key]
        return j, run_native(nat[inst['group']], inst['entry'], v['params'], v['inputs'])
    confirmed = []; unconfirmed = []; ubn = []
    with ThreadPoolExecutor(a.jobs) as ex:
        for (kind, key, v), (st, notes, out) in ex.map(runjob, jobs):
            if kind == 'val':
                if st == 'ok' and notes == [x & ((1 << 64) - 1) for x in v['notes']]:
                    validated += 1
                else:
                    val_mismatch.append({'instance': key, 'status': st, 'inputs': v['inputs'], 'engine_notes': v['notes'], 'native_notes': notes, 'output': out[-600:]})
            else:
                v['native'] = st
                if v['kind'] == 'uninit' and st in ('ok', 'assume'):
                    # a path ended on a read of uninitialised memory that the native run (ASan cannot see such reads, and a
                    # schedule-dependent one may simply not occur) does not show: the rest of that path was not explored,
                    # so this is "could not decide" (exit 3), never success
                    ubn.append(v)
                    v['native_output'] = out[-600:]
                    unconfirmed.append((key, v))
                elif st in ('assert', 'sanitizer') or st.startswith('crash') or (st == 'timeout' and v['kind'] in ('nontermination', 'deadlock')):
                    v['native_output'] = out[-1500:]
                    confirmed.append((key, v))
                else:
                    v['native_output'] = out[-600:]
                    unconfirmed.append((key, v))
    # ---- property-specific extra engines (e.g. E-CBMC interleaving scenarios)
    extra = spec.extra(a, workdir) if hasattr(spec, 'extra') else None
    # ---- verdict
    lines = []
    new_viol = 0
    RDIR = os.environ.get('VP_REPLAY_DIR', os.path.join(VERIF, 'replays'))
    os.makedirs(os.path.join(RDIR, prop), exist_ok=True)
    known_hit = {}
    for key, v in confirmed:
        k = match_known(known, prop, v)
        if k is not None:
            known_hit.setdefault(k['id'], (k, v)); continue
        h = hashlib.sha1(json.dumps([v['entry'], v['kind'], v['msg'], v['site']]).encode()).hexdigest()[:10]
        path = os.path.join(RDIR, prop, '%s_%s.json' % (v['entry'], h))
        json.dump({'property': prop, 'group': bykey[key]['group'], 'entry': v['entry'], 'params': v['params'], 'inputs': v['inputs'], 'kind': v['kind'],
                   'msg': v['msg'], 'site': v['site'], 'native': v['native'], 'native_output': v.get('native_output', '')}, open(path, 'w'), indent=1)
        lines.append("VIOLATION property=%s replay=%s" % (prop, path))
        print("  %s: [%s] %s @ %s  (native: %s)" % (v['entry'], v['kind'], v['msg'], v['site'], v['native']))
        new_viol += 1
    for kid, (k, v) in known_hit.items():
        print("KNOWN-FINDING: property=%s %s" % (prop, k['what']))
    for l in lines: print(l)
    errors = [e for g in agg.values() for e in g['errors']]
    if extra:
        for msg, path in extra.get('violations', []):
            print('  ' + msg); print("VIOLATION property=%s replay=%s" % (prop, path)); new_viol += 1
        errors += extra.get('errors', [])
    incon = sorted(set(m for g in agg.values() for m in g['inconclusive']))
    # vacuity: every instance must have at least one path that returned and reached its marker
    vacuous = [k for k, g in agg.items() if g['ended'].get('return', 0) == 0 and not g['viol']]
    total_paths = sum(g['paths'] for g in agg.values()); total_q = sum(g['nq'] for g in agg.values())
    samples = []
    for key, g in list(agg.items()):
        for v in g['validation'][:1]:
            samples.append({'instance': key, 'path_model_inputs': [x[2] for x in v['inputs']][:40], 'notes': v['notes'][:10]})
        if len(samples) >= 12: break
    undecided = [k for k, g in agg.items() if g['unknown'] or any('unknown' in m or 'more than' in m for m in g['inconclusive'])]
    ev = {
        'property_id': prop, 'tier': tier, 'seed': seed, 'level': 'model_checking',
        'coverage': {
            'states': total_paths, 'transitions': total_q, 'traces_validated_against_impl': validated,
            'samples': samples or [{'note': 'no path reached the end of a harness'}],
            'exhaustive': (not timed_out) and not incon and not errors and not undecided,
            'explanation': 'states = execution paths of the real IR explored to completion (path conditions partition the bounded input space); transitions = solver queries',
            'instances': [{'instance': k, 'paths': g['paths'], 'paths_by_end': g['ended'], 'queries': g['nq'], 'sat': g['sat'], 'unsat': g['unsat'], 'unknown': g['unknown'],
                           'solver_s': round(g['tq'], 2), 'cpu_s': round(g['wall'], 2), 'asserts_decided': g['asserts'], 'reach': sorted(g['reach']),
                           'bound': bykey[k].get('bound', '')} for k, g in agg.items()],
            'functions_encoded': sorted(set(f for g in agg.values() for f in g['funcs']))[:400],
            'externals_modelled': sorted(set(f for g in agg.values() for f in g['externs'])),
            'solver': 'z3 %s (python API, incremental, 10 s soft timeout, then a fresh solver with 180 s (or the limit set by the instance))' % __import__('z3').get_version_string(),
            'solver_time_s': round(sum(g['tq'] for g in agg.values()), 2),
            'build_s': round(build_s, 1),
            'bounds': getattr(spec, 'BOUNDS', {}).get(tier, getattr(spec, 'BOUNDS', '')),
            'outside_claim': getattr(spec, 'OUTSIDE', []),
            'undecided_instances': undecided, 'inconclusive': incon[:40], 'engine_errors': errors[:10],
            'vacuous_instances': vacuous,
            'ub_notes': sorted(set(k for g in agg.values() for k in g['ubnotes']))[:40] + ['uninit: %s @ %s' % (v['msg'], v['site']) for v in ubn][:20],
            'violations_confirmed': [{'entry': v['entry'], 'kind': v['kind'], 'msg': v['msg'], 'site': v['site'], 'inputs': [x[2] for x in v['inputs']][:64], 'params': v['params']} for k, v in confirmed][:40],
            'known_findings_seen': sorted(known_hit.keys()),
            'unconfirmed_candidates': [{'entry': v['entry'], 'kind': v['kind'], 'msg': v['msg'], 'site': v['site'], 'native': v['native'], 'inputs': [x[2] for x in v['inputs']][:64], 'params': v['params']} for k, v in unconfirmed][:20],
            'validation_mismatches': val_mismatch[:10],
            'timed_out': timed_out,
            'extra_engine': (extra or {}).get('evidence', {}),
        },
        'assumptions': getattr(spec, 'ASSUMPTIONS', []) + ['heap allocation never fails; realloc always moves; exceptions end the path',
                                                           'engine-internal models of malloc/free/realloc/memcpy/memmove/memset/memcmp/strlen/strcmp/strchr'],
        'wall_s': round(time.time() - t_start, 1), 'violations': new_viol,
    }
    EDIR = os.environ.get('VP_EVIDENCE_DIR', os.path.join(VERIF, 'evidence'))
    os.makedirs(EDIR, exist_ok=True)
    json.dump(ev, open(os.path.join(EDIR, prop + '.json'), 'w'), indent=1)
    print("%s %s: %d instances, %d paths, %d queries (%.1fs solver), %d path models validated natively, build %.0fs, wall %.0fs" %
          (prop, tier, len(insts), total_paths, total_q, sum(g['tq'] for g in agg.values()), validated, build_s, time.time() - t_start))
    if a.v or errors or incon or unconfirmed or val_mismatch or vacuous or undecided:
        for e in errors[:5]: print("ENGINE-ERROR", e)
        for m in incon[:10]: print("INCONCLUSIVE", m)
        for k, v in unconfirmed[:10]: print("UNCONFIRMED", k, v['kind'], v['msg'], v['site'], 'native=' + v['native'], [x[2] for x in v['inputs']][:24])
        for m in val_mismatch[:5]: print("VALIDATION-MISMATCH", json.dumps(m)[:800])
        for k in vacuous[:10]: print("VACUOUS", k)
    if new_viol:
        return 1
    if errors or unconfirmed or val_mismatch or vacuous or timed_out or undecided:
        return 3
    return 0


def do_replay(a, prop, groups):
    r = json.load(open(a.replay))
    g = [x for x in groups if x['name'] == r.get('group', groups[0]['name'])][0]
    st, notes, out = run_native(g['nat'], r['entry'], r['params'], r['inputs'])
    print("replay %s: entry=%s native=%s" % (a.replay, r['entry'], st))
    print(out[-2000:])
    if st in ('assert', 'sanitizer') or st.startswith('crash'):
        print("VIOLATION property=%s replay=%s" % (prop, a.replay))
        return 1
    return 0


if __name__ == '__main__':
    try:
        rc = main(sys.argv[1:])
    except SystemExit:
        raise
    except BaseException:
        # an internal error (e.g. the harness does not build against the tree) is "could not decide", never a verdict
        traceback.print_exc()
        print('ENGINE-ERROR driver exception')
        rc = 3
    sys.exit(rc)
