"""Thread model for E-SYM: POSIX threads executed as coroutines inside one symbolic state.

Every thread has its own frame stack; exactly one thread runs at a time.  Scheduling points (SP) are the visible
operations: volatile loads/stores, atomicrmw/cmpxchg, pthread_* / sem_* calls, sleep/yield and thread exit.  At an SP
the scheduler may preempt the running thread (bounded by the preemption budget vp_sched_budget, default 2) - every
alternative is a recorded decision, explored like any other branch of the path tree (so the schedule is part of the
decision prefix and reproducible).  A thread that blocks (join on a live thread, locked mutex, empty semaphore,
condition wait, spin on an unchanged volatile location, sleep) forces a switch, which costs no budget.
All threads blocked = 'deadlock' violation.

Memory is sequentially consistent; data races on plain (non-volatile, non-atomic) accesses are not detected - between
two scheduling points a thread runs atomically.
"""
from symval import *
import llsym


class Th(object):
    __slots__ = ('frames', 'status', 'wait', 'skip', 'lastv', 'retval', 'tid')

    def clone(s):
        t = Th.__new__(Th)
        t.frames = [f.clone() for f in s.frames]
        t.status = s.status; t.wait = s.wait; t.skip = s.skip; t.lastv = s.lastv; t.retval = s.retval; t.tid = s.tid
        return t


SWITCHED = llsym.SWITCHED


def _init(st):
    if st.threads is None:
        t = Th(); t.frames = st.frames; t.status = 'run'; t.wait = None; t.skip = False; t.lastv = None; t.retval = NULL; t.tid = 0
        st.threads = [t]; st.cur = 0
        st.env.setdefault('budget', 2)
        st.env.setdefault('wseq', 0)
        st.env.setdefault('sched', ())


def choose(e, st, n):
    """n-way schedule choice made in the scheduling step of the main loop (never inside an instruction): a recorded
    value decision; siblings are forks of this very state that take the other alternatives (no solver call, no rewind)"""
    if n <= 1: return 0
    if st.pending:
        d = st.pending.pop(0)
        st.decisions.append(d)
        return d[1]
    for v in range(1, n):
        sib = st.fork()
        sib.pending = [('v', v)]
        sib.markkey = None; sib.mark_known = []
        sib.model = st.model
        e.work.append(sib)
    st.decisions.append(('v', 0))
    return 0


def runnable(st, t):
    if t.status == 'run': return True
    if t.status != 'blocked': return False
    w = t.wait
    k = w[0]
    if k == 'join': return st.threads[w[1]].status == 'done'
    if k == 'mutex':
        m = st.env.get('mtx', {}).get(w[1])
        return m is None or m[0] == t.tid
    if k == 'sem': return st.env.get('sem', {}).get(w[1], 0) > 0
    if k == 'cond': return st.env.get('cond', {}).get(w[1], 0) != w[2] or st.env.get('condtok', {}).get(w[1], 0) > 0
    if k == 'spin': return st.env['wseq'] != w[1]
    if k == 'sleep': return True
    return False


def switch_to(st, j):
    st.cur = j
    st.frames = st.threads[j].frames
    t = st.threads[j]
    if t.status == 'blocked':
        t.status = 'run'; t.wait = None
    st.env['sched'] = st.env['sched'] + (j,)
    st.markkey = None


def do_sched(e, st):
    """scheduling step, run by the main loop between two instructions when st.sched is set"""
    kind = st.sched
    cur = st.threads[st.cur]
    others = [j for j, t in enumerate(st.threads) if j != st.cur and runnable(st, t)]
    if kind == 'preempt' or kind == 'post':
        # 'preempt': before a visible operation (the instruction is re-executed, its pre-phase skipped);
        # 'post': right after a visible store / read-modify-write, before the thread's following plain code
        k = choose(e, st, len(others) + 1)
        st.sched = None
        if kind == 'preempt': cur.skip = True
        if k:
            st.env['budget'] -= 1
            switch_to(st, others[k - 1])
        return
    # forced: the running thread blocked, yielded or ended
    if not others:
        st.sched = None
        if cur.status == 'blocked' and cur.wait[0] == 'sleep':
            cur.status = 'run'; cur.wait = None
            return
        if all(t.status == 'done' for t in st.threads):
            st.frames = st.threads[0].frames
            e.finish_harness(st)
        blocked = ["thread %d waits for %s" % (t.tid, t.wait) for t in st.threads if t.status == 'blocked']
        raise Violation('deadlock', "no runnable thread: " + "; ".join(blocked))
    if st.env.get('rr') and cur.status == 'blocked' and cur.wait[0] == 'sleep':
        # fair mode (vp_sched_fair): a voluntary yield hands over round-robin, without branching
        nxt = [j for j in others if j > st.cur]
        k = others.index(nxt[0]) if nxt else 0
    else:
        k = choose(e, st, len(others))
    st.sched = None
    switch_to(st, others[k])


def sched_point(e, st, fr):
    """pre-phase of a visible operation: returns True if a scheduling step has to run first (the instruction is
    re-executed afterwards, by this or - after a preemption - eventually by the resumed thread)"""
    cur = st.threads[st.cur]
    if cur.skip:
        cur.skip = False
        return False
    if st.env['budget'] <= 0:
        return False
    for j, t in enumerate(st.threads):
        if j != st.cur and runnable(st, t):
            fr.ip -= 1
            st.sched = 'preempt'
            return True
    return False


def post_point(e, st):
    """after a visible store: the thread may also be preempted here, i.e. before the plain code that follows the store
    (hand-over protocols publish a flag and then keep using shared memory)"""
    if st.env['budget'] <= 0:
        return
    for j, t in enumerate(st.threads):
        if j != st.cur and runnable(st, t):
            st.sched = 'post'
            return


def block(e, st, fr, wait):
    """the current call/instruction cannot complete: re-execute it once the wake condition holds"""
    cur = st.threads[st.cur]
    cur.status = 'blocked'; cur.wait = wait; cur.skip = True
    fr.ip -= 1
    st.sched = 'forced'
    return SWITCHED


def thread_exit(e, st, rv):
    cur = st.threads[st.cur]
    cur.status = 'done'; cur.retval = rv if rv is not None else NULL
    st.env['wseq'] += 1
    st.sched = 'forced'


# ---------------------------------------------------------------- instruction hooks (installed into llsym)
def h_vload(e, st, fr, ins):
    if st.threads is not None:
        if sched_point(e, st, fr): return True
        llsym.h_load(e, st, fr, ins)
        cur = st.threads[st.cur]
        p = fr.regs[ins[2]]
        v = fr.regs[ins[1]]
        key = (id(fr.code), fr.ip, p.obj if p.__class__ is Ptr else None, p.off if p.__class__ is Ptr and p.off.__class__ is int else None,
               v if v.__class__ is int else None, st.env['wseq'])
        if cur.lastv == key and key[2] is not None and key[4] is not None:
            # the same load returned the same value with no intervening visible store by anyone: a spin-wait
            cur.lastv = None
            cur.status = 'blocked'; cur.wait = ('spin', st.env['wseq'])
            fr.ip -= 1
            st.sched = 'forced'
            return True
        cur.lastv = key
        return
    return llsym.h_load(e, st, fr, ins)


def h_vstore(e, st, fr, ins):
    if st.threads is not None:
        if sched_point(e, st, fr): return True
        st.env['wseq'] += 1
        llsym.h_store(e, st, fr, ins)
        post_point(e, st)
        return st.sched is not None
    return llsym.h_store(e, st, fr, ins)


def h_atomicrmw(e, st, fr, ins):
    if st.threads is not None:
        if sched_point(e, st, fr): return True
        st.env['wseq'] += 1
        llsym.h_atomicrmw_plain(e, st, fr, ins)
        post_point(e, st)
        return st.sched is not None
    return llsym.h_atomicrmw_plain(e, st, fr, ins)


def h_cmpxchg(e, st, fr, ins):
    if st.threads is not None:
        if sched_point(e, st, fr): return True
        st.env['wseq'] += 1
    return llsym.h_cmpxchg_plain(e, st, fr, ins)


# ---------------------------------------------------------------- builtins
def _key(e, st, p, what):
    if p.__class__ is not Ptr or p.off.__class__ is not int:
        raise Inconclusive("%s at a symbolic address" % what)
    o = st.objs.get(p.obj)
    if o is None or not o.live:
        raise Violation('memory', "%s on an object that is not live (%s)" % (what, o.name if o else p))
    return (p.obj, p.off)


def x_pthread_create(e, st, fr, args, name):
    _init(st)
    hp, attr, fn, arg = args[:4]
    if fn.__class__ is not FnPtr:
        raise Violation('memory', "pthread_create with a non-function start routine")
    if len(st.threads) >= 17:
        raise Inconclusive("more than 16 threads")
    t = Th(); t.frames = []; t.status = 'run'; t.wait = None; t.skip = False; t.lastv = None; t.retval = NULL
    t.tid = len(st.threads)
    st.threads.append(t)
    mine = st.frames
    st.frames = t.frames
    e.push_frame(st, e.get_func(fn.name), [arg], None, None)
    st.frames = mine
    e.store(st, hp, 0x7100 + t.tid, 'i', 8, 64)
    st.env['wseq'] += 1
    return 0


def _tid(e, st, h, what):
    if h.__class__ is not int:
        if h.__class__ is Undef: raise Violation('uninit', "%s on an uninitialised thread handle" % what)
        h = e.concretize(st, h, 4, 'thread handle')
    j = h - 0x7100
    if st.threads is None or j <= 0 or j >= len(st.threads):
        raise Violation('thread', "%s on an invalid thread handle %#x" % (what, h))
    return j


def x_pthread_join(e, st, fr, args, name):
    _init(st)
    if cancel_point(e, st): return SWITCHED
    j = _tid(e, st, args[0], 'pthread_join')
    t = st.threads[j]
    joined = st.env.get('joined', ())
    cur = st.threads[st.cur]
    if cur.skip: cur.skip = False
    if j in joined:
        raise Violation('thread', "thread %d joined twice (or joined after detach)" % j)
    if t.status != 'done':
        return block(e, st, fr, ('join', j))
    st.env['joined'] = joined + (j,)
    rp = args[1]
    if not (rp.__class__ is Ptr and rp.obj == 0):
        e.store(st, rp, t.retval, 'p', 8, 64)
    return 0


def x_pthread_detach(e, st, fr, args, name):
    _init(st)
    j = _tid(e, st, args[0], 'pthread_detach')
    joined = st.env.get('joined', ())
    if j in joined:
        raise Violation('thread', "thread %d detached after it was joined or detached" % j)
    st.env['joined'] = joined + (j,)
    return 0


def x_pthread_self(e, st, fr, args, name):
    return 0x7100 + (st.cur if st.threads is not None else 0)


def x_pthread_cancel(e, st, fr, args, name):
    """deferred cancellation (the default cancel type): the target ends at its next cancellation point - in this
    model the blocking calls: sleep/usleep/nanosleep/sched_yield (which stands for select/read in the socket models),
    pthread_join, sem_wait, pthread_cond_wait.  Plain code after the request still runs."""
    _init(st)
    j = _tid(e, st, args[0], 'pthread_cancel')
    if st.threads[j].status != 'done':
        st.env['cancel'] = st.env.get('cancel', ()) + (j,)
    return 0


def cancel_point(e, st):
    """called at the entry of blocking calls: ends the calling thread if it has been cancelled"""
    c = st.env.get('cancel', ())
    if st.threads is None or st.cur not in c:
        return False
    for f in st.frames:
        for oid in f.allocas:
            o = st.wobj(oid); o.live = False; o.data = None
    del st.frames[:]
    thread_exit(e, st, None)
    return True


def x_mutex_init(e, st, fr, args, name):
    k = _key(e, st, args[0], name)
    d = dict(st.env.get('mtx', {})); d.pop(k, None); st.env['mtx'] = d
    e.store(st, args[0], 0, 'i', 4, 32)
    return 0


def x_mutex_lock(e, st, fr, args, name):
    _init(st)
    k = _key(e, st, args[0], name)
    cur = st.threads[st.cur]
    if sched_point(e, st, fr): return SWITCHED
    d = st.env.get('mtx', {})
    m = d.get(k)
    if m is not None and m[0] != cur.tid:
        if name == 'pthread_mutex_trylock': return 16
        return block(e, st, fr, ('mutex', k))
    d = dict(d); d[k] = (cur.tid, (m[1] if m else 0) + 1); st.env['mtx'] = d
    return 0


def x_mutex_unlock(e, st, fr, args, name):
    _init(st)
    k = _key(e, st, args[0], name)
    cur = st.threads[st.cur]
    d = st.env.get('mtx', {})
    m = d.get(k)
    if m is None or m[0] != cur.tid:
        raise Violation('thread', "unlock of a mutex the thread does not hold")
    d = dict(d)
    if m[1] <= 1: d.pop(k)
    else: d[k] = (m[0], m[1] - 1)
    st.env['mtx'] = d
    st.env['wseq'] += 1
    return 0


def x_mutex_destroy(e, st, fr, args, name):
    _init(st)
    k = _key(e, st, args[0], name)
    if st.env.get('mtx', {}).get(k) is not None:
        raise Violation('thread', "pthread_mutex_destroy on a locked mutex")
    return 0


def x_sem_init(e, st, fr, args, name):
    _init(st)
    k = _key(e, st, args[0], name)
    v = args[2]
    if v.__class__ is not int: v = e.concretize(st, v, 16, 'semaphore count')
    d = dict(st.env.get('sem', {})); d[k] = v; st.env['sem'] = d
    return 0


def x_sem_post(e, st, fr, args, name):
    _init(st)
    k = _key(e, st, args[0], name)
    if sched_point(e, st, fr): return SWITCHED
    d = dict(st.env.get('sem', {})); d[k] = d.get(k, 0) + 1; st.env['sem'] = d
    st.env['wseq'] += 1
    return 0


def x_sem_wait(e, st, fr, args, name):
    _init(st)
    if name != 'sem_trywait' and cancel_point(e, st): return SWITCHED
    k = _key(e, st, args[0], name)
    if sched_point(e, st, fr): return SWITCHED
    d = st.env.get('sem', {})
    if d.get(k, 0) <= 0:
        if name == 'sem_trywait':
            return 0xffffffff
        if name == 'sem_timedwait':
            # the timeout may expire: both outcomes when no post is available and nobody else can run
            others = [t for j, t in enumerate(st.threads) if j != st.cur and runnable(st, t)]
            if not others:
                return 0xffffffff
        return block(e, st, fr, ('sem', k))
    d = dict(d); d[k] -= 1; st.env['sem'] = d
    return 0


def x_sem_getvalue(e, st, fr, args, name):
    _init(st)
    k = _key(e, st, args[0], name)
    e.store(st, args[1], st.env.get('sem', {}).get(k, 0), 'i', 4, 32)
    return 0


def x_cond_wait(e, st, fr, args, name):
    """wait = atomically release the mutex and sleep until the next broadcast/signal (generation counter), then
    re-acquire.  Implemented as a two-phase call using the per-thread 'cw' record."""
    _init(st)
    k = _key(e, st, args[0], name)
    mk = _key(e, st, args[1], name)
    cur = st.threads[st.cur]
    cw = st.env.get('cw', {})
    rec = cw.get(cur.tid)
    if rec is None and cancel_point(e, st): return SWITCHED
    if rec is None:
        d = st.env.get('mtx', {})
        m = d.get(mk)
        if m is None or m[0] != cur.tid:
            raise Violation('thread', "pthread_cond_wait without holding the mutex")
        d = dict(d); d.pop(mk); st.env['mtx'] = d
        gen = st.env.get('cond', {}).get(k, 0)
        cw = dict(cw); cw[cur.tid] = (gen, m[1]); st.env['cw'] = cw
        st.env['wseq'] += 1
        if name == 'pthread_cond_timedwait':
            others = [t for j, t in enumerate(st.threads) if j != st.cur and runnable(st, t)]
            if not others:      # nobody can signal: the timeout expires
                cw = dict(cw); cw.pop(cur.tid); st.env['cw'] = cw
                d = dict(st.env.get('mtx', {})); d[mk] = (cur.tid, m[1]); st.env['mtx'] = d
                return 110
        return block(e, st, fr, ('cond', k, gen))
    # resumed after a broadcast (generation changed) or a signal (one wake-up token, taken by whichever waiter runs first)
    if cur.skip: cur.skip = False
    if len(rec) == 2:
        if st.env.get('cond', {}).get(k, 0) == rec[0]:
            tok = dict(st.env.get('condtok', {}))
            if tok.get(k, 0) <= 0:
                return block(e, st, fr, ('cond', k, rec[0]))
            tok[k] -= 1; st.env['condtok'] = tok
        cw = dict(cw); cw[cur.tid] = (rec[0], rec[1], 1); st.env['cw'] = cw      # woken: only the mutex is still to be re-acquired
    d = st.env.get('mtx', {})
    m = d.get(mk)
    if m is not None and m[0] != cur.tid:
        return block(e, st, fr, ('mutex', mk))
    d = dict(d); d[mk] = (cur.tid, rec[1]); st.env['mtx'] = d
    cw = dict(cw); cw.pop(cur.tid); st.env['cw'] = cw
    return 0


def x_cond_signal(e, st, fr, args, name):
    _init(st)
    k = _key(e, st, args[0], name)
    if sched_point(e, st, fr): return SWITCHED
    if name == 'pthread_cond_signal':
        # wakes at most one of the threads currently waiting (a signal with no waiter is lost, as in POSIX)
        waiting = sum(1 for t in st.threads if t.status == 'blocked' and t.wait and t.wait[0] == 'cond' and t.wait[1] == k)
        tok = dict(st.env.get('condtok', {}))
        if waiting > tok.get(k, 0):
            tok[k] = tok.get(k, 0) + 1; st.env['condtok'] = tok
        st.env['wseq'] += 1
        return 0
    d = dict(st.env.get('cond', {})); d[k] = d.get(k, 0) + 1; st.env['cond'] = d
    tok = dict(st.env.get('condtok', {})); tok[k] = 0; st.env['condtok'] = tok
    st.env['wseq'] += 1
    return 0


def x_yield(e, st, fr, args, name):
    """sleep / usleep / sched_yield / nanosleep: advances the clock and lets every other runnable thread go first"""
    if name in ('sleep', 'usleep', 'nanosleep'):
        us = args[0]
        if name == 'nanosleep': us = 1000
        if us.__class__ is not int: us = 1000
        st.env['clock'] = st.env.get('clock', 1700000000 * 1000000) + (us * 1000000 if name == 'sleep' else us)
    if st.threads is None:
        return 0
    if cancel_point(e, st): return SWITCHED
    cur = st.threads[st.cur]
    if cur.skip:
        cur.skip = False
        return 0
    others = [j for j, t in enumerate(st.threads) if j != st.cur and runnable(st, t)]
    if not others:
        return 0
    cur.status = 'blocked'; cur.wait = ('sleep',); cur.skip = True
    fr.ip -= 1
    st.sched = 'forced'
    return SWITCHED


def x_sched_point(e, st, fr, args, name):
    if st.threads is None:
        return None
    if sched_point(e, st, fr): return SWITCHED
    return None


def x_sched_budget(e, st, fr, args, name):
    _init(st)
    v = args[0]
    if v.__class__ is not int: v = e.concretize(st, v, 8, 'budget')
    st.env['budget'] = v
    return None


def x_sched_fair(e, st, fr, args, name):
    _init(st)
    st.env['rr'] = 1 if args[0] else 0
    return None


def x_thread_count(e, st, fr, args, name):
    return len(st.threads) if st.threads is not None else 1


def install(e):
    X = e.ext
    X['pthread_create'] = x_pthread_create; X['pthread_join'] = x_pthread_join; X['pthread_detach'] = x_pthread_detach
    X['pthread_self'] = x_pthread_self; X['pthread_cancel'] = x_pthread_cancel
    X['pthread_mutex_init'] = x_mutex_init; X['pthread_mutex_lock'] = x_mutex_lock; X['pthread_mutex_trylock'] = x_mutex_lock
    X['pthread_mutex_unlock'] = x_mutex_unlock; X['pthread_mutex_destroy'] = x_mutex_destroy
    X['sem_init'] = x_sem_init; X['sem_post'] = x_sem_post; X['sem_wait'] = x_sem_wait; X['sem_trywait'] = x_sem_wait
    X['sem_timedwait'] = x_sem_wait; X['sem_getvalue'] = x_sem_getvalue; X['sem_destroy'] = lambda e, st, fr, a, n: 0
    X['pthread_cond_wait'] = x_cond_wait; X['pthread_cond_timedwait'] = x_cond_wait
    X['pthread_cond_broadcast'] = x_cond_signal; X['pthread_cond_signal'] = x_cond_signal
    X['pthread_cond_destroy'] = lambda e, st, fr, a, n: 0; X['pthread_cond_init'] = lambda e, st, fr, a, n: 0
    X['sleep'] = x_yield; X['usleep'] = x_yield; X['sched_yield'] = x_yield; X['nanosleep'] = x_yield
    X['vp_sched_budget'] = x_sched_budget; X['vp_sched_point'] = x_sched_point; X['vp_sched_fair'] = x_sched_fair; X['vp_thread_count'] = x_thread_count
