"""External functions and intrinsics known to E-SYM (the trusted environment model).

Everything here is part of the claim: allocation never fails, memcpy/memset/memcmp/strlen have
their C semantics, exceptions end the path, the clock is strictly increasing.
Larger libc pieces (printf family, stdio, strtol ...) are *not* here: they are C code in
/verif/env compiled to IR and executed symbolically like the code under test.
"""
import math, struct
import z3
from symval import *
from llsym import CALLED, icmp, _mat


def _int(e, st, v, what):
    if v.__class__ is int: return v
    if v.__class__ is Undef:
        raise Violation('uninit', "%s is uninitialised" % what)
    return e.concretize(st, v, what=what)


def _cptr(e, st, p, n, what):
    """pointer with concrete offset"""
    if p.__class__ is PInt: p = p.p
    if p.__class__ is not Ptr:
        if p.__class__ is Undef: raise Violation('uninit', "%s through uninitialised pointer" % what)
        raise Violation('memory', "%s through non-pointer %r" % (what, p))
    if p.off.__class__ is not int:
        return Ptr(p.obj, e.conc_off(st, p, n, what))
    return p


# ---------------------------------------------------------------- allocation
def x_malloc(e, st, fr, a, name):
    n = _int(e, st, a[0], 'allocation size')
    p = e.heap_alloc(st, n, '%s(%d)@%s' % (name, n, fr.fn.name[1:60]))
    if p is None:
        if name == 'malloc': return NULL
        raise PathEnd('bad_alloc')
    return p


def x_calloc(e, st, fr, a, name):
    n = _int(e, st, a[0], 'calloc n') * _int(e, st, a[1], 'calloc size')
    p = e.heap_alloc(st, n, 'calloc(%d)@%s' % (n, fr.fn.name[1:60]), 0)
    return p if p is not None else NULL


def x_free(e, st, fr, a, name):
    e.heap_free(st, a[0], name)


def x_realloc(e, st, fr, a, name):
    p = a[0]
    n = _int(e, st, a[1], 'realloc size')
    if p.__class__ is Ptr and p.obj == 0 and p.off == 0:
        q = e.heap_alloc(st, n, 'realloc(%d)@%s' % (n, fr.fn.name[1:60]))
        return q if q is not None else NULL
    if p.__class__ is not Ptr:
        raise Violation('memory', "realloc of %r" % (p,))
    o = st.objs.get(p.obj)
    if o is None or o.kind != 'heap' or p.off != 0:
        raise Violation('memory', "realloc of non-heap or interior pointer")
    if not o.live:
        raise Violation('memory', "realloc of freed block %s" % o.name)
    q = e.heap_alloc(st, n, 'realloc(%d)@%s' % (n, fr.fn.name[1:60]))
    if q is None:
        return NULL
    nb = st.objs[q.obj]
    m = min(o.size, n)
    nb.data[:m] = o.data[:m]
    o = st.wobj(p.obj); o.live = False; o.data = None     # always moves: the strictest legal realloc
    return q


# ---------------------------------------------------------------- mem* / str*
def x_memcpy(e, st, fr, a, name):
    n = _int(e, st, a[2], 'memcpy length')
    d = a[0]; sp = a[1]
    if n:
        d = _cptr(e, st, d, n, 'memcpy-write'); sp = _cptr(e, st, sp, n, 'memcpy-read')
        so = e.obj_of(st, sp, 'memcpy-read')
        if sp.off < 0 or sp.off + n > so.size:
            raise Violation('memory', "memcpy read out of bounds: offset %d size %d in %s[%d]" % (sp.off, n, so.name, so.size))
        do = e.obj_of(st, d, 'memcpy-write')
        if d.off < 0 or d.off + n > do.size:
            raise Violation('memory', "memcpy write out of bounds: offset %d size %d in %s[%d]" % (d.off, n, do.name, do.size))
        if do.kind == 'const':
            raise Violation('memory', "memcpy into constant %s" % do.name)
        if 'memmove' not in name and d.obj == sp.obj and d.off != sp.off and abs(d.off - sp.off) < n:
            raise Violation('memory', "memcpy with overlapping source and destination (distance %d, length %d)" % (d.off - sp.off, n))
        data = so.data[sp.off:sp.off + n]
        do = st.wobj(d.obj)
        do.data[d.off:d.off + n] = data
    return a[0]


def x_memset(e, st, fr, a, name):
    n = _int(e, st, a[2], 'memset length')
    if n:
        d = _cptr(e, st, a[0], n, 'memset')
        do = e.obj_of(st, d, 'memset')
        if d.off < 0 or d.off + n > do.size:
            raise Violation('memory', "memset out of bounds: offset %d size %d in %s[%d]" % (d.off, n, do.name, do.size))
        c = a[1]
        if c.__class__ is int: cell = c & 255
        elif c.__class__ is Undef: cell = None
        else:
            c8 = z3.Extract(7, 0, c) if c.size() > 8 else c
            cell = (c8, 0)
        do = st.wobj(d.obj)
        do.data[d.off:d.off + n] = [cell] * n
    return a[0]


def _bytes_at(e, st, p, n, what, strict=True):
    p = _cptr(e, st, p, n, what)
    o = e.obj_of(st, p, what)
    if p.off < 0 or p.off + n > o.size:
        raise Violation('memory', "%s out of bounds: offset %d size %d in %s[%d]" % (what, p.off, n, o.name, o.size))
    cells = o.data[p.off:p.off + n]
    if strict:
        for c in cells:
            if c is None:
                raise Violation('uninit', "%s reads uninitialised memory in %s" % (what, o.name))
    return cells


def x_memcmp(e, st, fr, a, name):
    n = _int(e, st, a[2], 'memcmp length')
    if n == 0: return 0
    A = _bytes_at(e, st, a[0], n, name, False); B = _bytes_at(e, st, a[1], n, name, False)
    if name == 'bcmp':
        # any concretely different pair decides the result whatever the other bytes are
        for x, y in zip(A, B):
            if x.__class__ is int and y.__class__ is int and x != y: return 1
    out = []
    for x, y in zip(A, B):
        if x.__class__ is int and y.__class__ is int:
            out.append((x, y))
            if x != y: break      # memcmp: later bytes are irrelevant
            continue
        pair = []
        for c in (x, y):
            if c is None:
                raise Violation('uninit', "%s reads uninitialised memory" % name)
            if c.__class__ is tuple and c[0].__class__ in (Ptr, FnPtr):
                e.ubnote(st, name + ' over bytes of a stored pointer (treated as unknown bytes)')
                c = e.fresh(st, 8)
            pair.append(c)
        out.append(tuple(pair))
    if all(x.__class__ is int and y.__class__ is int for x, y in out):
        for x, y in out:
            if x != y: return (1 if x > y else -1) & mask(32)
        return 0
    if name == 'bcmp':
        ne = [e.byte_expr(x) != e.byte_expr(y) for x, y in out if not (x.__class__ is int and y.__class__ is int)]
        return z3.If(z3.Or(*ne) if len(ne) > 1 else ne[0], z3.BitVecVal(1, 32), z3.BitVecVal(0, 32))
    r = z3.BitVecVal(0, 32)
    for x, y in reversed(out):
        if x.__class__ is int and y.__class__ is int:
            if x != y: r = z3.BitVecVal((1 if x > y else -1) & mask(32), 32)
            continue
        X = e.byte_expr(x); Y = e.byte_expr(y)
        r = z3.If(X == Y, r, z3.If(z3.ULT(X, Y), z3.BitVecVal(mask(32), 32), z3.BitVecVal(1, 32)))
    return r


def _scan(e, st, p, what):
    """iterate (index, cell) over bytes from p to the end of its object, checking liveness"""
    p = _cptr(e, st, p, 1, what)
    o = e.obj_of(st, p, what)
    if p.off < 0 or p.off > o.size:
        raise Violation('memory', "%s out of bounds: offset %d in %s[%d]" % (what, p.off, o.name, o.size))
    return p, o


def _is_zero(e, st, c, o, what):
    """decide whether memory cell c is a NUL byte (forks when symbolic)"""
    if c.__class__ is int: return c == 0
    if c is None:
        raise Violation('uninit', "%s reads uninitialised byte in %s" % (what, o.name))
    return e.decide(st, e.byte_expr(c) == 0)


def x_strlen(e, st, fr, a, name):
    p, o = _scan(e, st, a[0], 'strlen')
    i = p.off
    data = o.data
    while True:
        if i >= o.size:
            raise Violation('memory', "strlen reads past the end of %s[%d] (no terminator)" % (o.name, o.size))
        if _is_zero(e, st, data[i], o, 'strlen'):
            return i - p.off
        i += 1


def x_strcmp(e, st, fr, a, name):
    lim = None
    if name == 'strncmp':
        lim = _int(e, st, a[2], 'strncmp length')
    p, po = _scan(e, st, a[0], name); q, qo = _scan(e, st, a[1], name)
    i = 0
    while True:
        if lim is not None and i >= lim: return 0
        if p.off + i >= po.size: raise Violation('memory', "%s reads past the end of %s[%d]" % (name, po.name, po.size))
        if q.off + i >= qo.size: raise Violation('memory', "%s reads past the end of %s[%d]" % (name, qo.name, qo.size))
        x = po.data[p.off + i]; y = qo.data[q.off + i]
        if x.__class__ is int and y.__class__ is int:
            if x != y: return (1 if x > y else -1) & mask(32)
            if x == 0: return 0
        else:
            if x is None or y is None:
                raise Violation('uninit', "%s reads uninitialised byte" % name)
            X = e.byte_expr(x); Y = e.byte_expr(y)
            if e.decide(st, X != Y):
                return 1 if e.decide(st, z3.UGT(X, Y)) else mask(32)
            if e.decide(st, X == 0): return 0
        i += 1


def x_strchr(e, st, fr, a, name):
    p, o = _scan(e, st, a[0], name)
    ch = a[1]
    ch = (ch & 255) if ch.__class__ is int else z3.Extract(7, 0, ch)
    i = p.off
    last = NULL
    while True:
        if i >= o.size:
            raise Violation('memory', "%s reads past the end of %s[%d]" % (name, o.name, o.size))
        c = o.data[i]
        if c is None: raise Violation('uninit', "%s reads uninitialised byte in %s" % (name, o.name))
        if c.__class__ is int and ch.__class__ is int: hit = c == ch
        else: hit = e.decide(st, e.byte_expr(c) == bv(ch, 8))
        if hit:
            if name == 'strchr': return Ptr(p.obj, i)
            last = Ptr(p.obj, i)
        if _is_zero(e, st, c, o, name):
            return last
        i += 1


def x_memchr(e, st, fr, a, name):
    n = _int(e, st, a[2], 'memchr length')
    if n == 0: return NULL
    p = _cptr(e, st, a[0], 1, 'memchr')
    o = e.obj_of(st, p, 'memchr')
    ch = a[1]
    ch = (ch & 255) if ch.__class__ is int else z3.Extract(7, 0, ch)
    for i in range(n):
        if p.off + i >= o.size:
            raise Violation('memory', "memchr reads past the end of %s[%d]" % (o.name, o.size))
        c = o.data[p.off + i]
        if c is None: raise Violation('uninit', "memchr reads uninitialised byte")
        if c.__class__ is int and ch.__class__ is int: hit = c == ch
        else: hit = e.decide(st, e.byte_expr(c) == bv(ch, 8))
        if hit: return Ptr(p.obj, p.off + i)
    return NULL


# ---------------------------------------------------------------- harness primitives
def _nondet(w, kind):
    def x(e, st, fr, a, name):
        k = len(st.inputs)
        if e.concrete_inputs is not None:
            v = e.concrete_inputs[k] if k < len(e.concrete_inputs) else 0
            if kind == 'f64':
                v = struct.unpack('<d', (v & mask(64)).to_bytes(8, 'little'))[0]
                st.inputs.append(('in%d' % k, kind, v)); return v
            v &= mask(w)
            st.inputs.append(('in%d' % k, kind, v)); return v
        if kind == 'f64':
            b = z3.BitVec('in%d' % k, 64)
            x_ = z3.fpBVToFP(b, z3.Float64())
            st.inputs.append(('in%d' % k, kind, b)); return x_
        if kind == 'bool':
            b = z3.BitVec('in%d' % k, 8)
            st.inputs.append(('in%d' % k, kind, b))
            return z3.If(b != 0, z3.BitVecVal(1, w), z3.BitVecVal(0, w))
        b = z3.BitVec('in%d' % k, w)
        st.inputs.append(('in%d' % k, kind, b))
        return b
    return x


def x_vp_range(e, st, fr, a, name):
    lo, hi = a[0], a[1]
    k = len(st.inputs)
    conc = lo.__class__ is int and hi.__class__ is int
    if conc:
        lo = sx(lo, 32); hi = sx(hi, 32)
    if e.concrete_inputs is not None:
        if not conc: raise Inconclusive("vp_range with symbolic bounds in concrete mode")
        v = e.concrete_inputs[k] if k < len(e.concrete_inputs) else lo
        v = sx(v, 32)
        if v < lo or v > hi: raise PathEnd('assume')
        st.inputs.append(('in%d' % k, 'i32', v & mask(32))); return v & mask(32)
    if conc and lo == hi:
        st.inputs.append(('in%d' % k, 'i32', lo & mask(32))); return lo & mask(32)
    if conc and lo > hi:
        raise PathEnd('assume')
    b = z3.BitVec('in%d' % k, 32)
    st.inputs.append(('in%d' % k, 'i32', b))
    c = z3.And(b >= (lo if conc else bv(lo, 32)), b <= (hi if conc else bv(hi, 32)))
    if conc:
        st.pc.append(c); st.model = None
    else:
        x_vp_assume(e, st, fr, [z3.If(c, z3.BitVecVal(1, 32), z3.BitVecVal(0, 32))], 'vp_assume')
    return b


def _truth(v):
    if v.__class__ is int: return v != 0
    if isinstance(v, z3.BoolRef): return v
    return z3.simplify(v != 0)


def x_vp_assume(e, st, fr, a, name):
    c = a[0]
    if c.__class__ is Undef: raise Violation('uninit', "vp_assume on uninitialised value")
    c = _truth(c)
    if c is True or z3.is_true(c): return
    if c is False or z3.is_false(c): raise PathEnd('assume')
    if st.model is not None:
        v = st.model.eval(c, model_completion=True)
        if z3.is_true(v):
            st.pc.append(c); return
    r, m = e.check(st, c)
    if r == 'unsat': raise PathEnd('assume')
    if r == 'unknown': raise Inconclusive("solver unknown on assumption")
    st.pc.append(c); st.model = m


def x_vp_assert(e, st, fr, a, name):
    c = a[0]
    msg = e.read_cstr(st, a[1]) if len(a) > 1 and a[1].__class__ is Ptr and a[1].obj else b'assert'
    msg = (msg or b'assert').decode('latin1')
    e.nasserts = getattr(e, 'nasserts', 0) + 1
    if c.__class__ is Undef:
        raise Violation('uninit', "assertion '%s' depends on uninitialised value" % msg)
    c = _truth(c)
    if c is True: return
    e.must_hold(st, c, 'assert', msg)


def x_vp_reach(e, st, fr, a, name):
    st.reach.add(_int(e, st, a[0], 'reach id'))


def x_vp_note(e, st, fr, a, name):
    v = a[0]
    if v.__class__ is Undef: v = 0
    st.notes.append(v)


def x_vp_param(e, st, fr, a, name):
    k = _int(e, st, a[0], 'param index')
    if k >= len(e.params):
        raise Inconclusive("harness asks for parameter %d, only %d given" % (k, len(e.params)))
    return e.params[k] & mask(32)


def x_vp_concretize(e, st, fr, a, name):
    return e.concretize(st, a[0], limit=1024, what='vp_concretize')


def x_vp_is_symbolic(e, st, fr, a, name):
    return 0 if a[0].__class__ is int else 1


def x_vp_heap_live(e, st, fr, a, name):
    return sum(1 for oid, o in st.objs.items() if oid >= st.baseline and o.kind == 'heap' and o.live)


def x_vp_symbolic_run(e, st, fr, a, name):
    return 1


# ---------------------------------------------------------------- C++ runtime
def x_throw(e, st, fr, a, name):
    raise PathEnd('exception')


def x_terminate(e, st, fr, a, name):
    raise Violation('abort', "%s called" % name)


def x_guard_acquire(e, st, fr, a, name):
    v = e.load(st, a[0], 'i', 1, 8)
    return 1 if v == 0 else 0


def x_guard_release(e, st, fr, a, name):
    e.store(st, a[0], 1, 'i', 1, 8)


def x_zero(e, st, fr, a, name):
    return 0


def x_lifetime(e, st, fr, a, name):
    """llvm.lifetime.start/end(size, ptr): the object's bytes become indeterminate (a read after the end of the
    variable's scope - e.g. by another thread that was handed its address - is then seen as uninitialised)"""
    p = a[1]
    if p.__class__ is Ptr and p.obj and p.off.__class__ is int:
        o = st.objs.get(p.obj)
        n = a[0]
        if o is not None and o.live and o.data is not None and o.kind == 'stack':
            if n.__class__ is not int or n < 0 or n > o.size - p.off: n = o.size - p.off
            o = st.wobj(p.obj)
            o.data[p.off:p.off + n] = [None] * n
    return None


def x_none(e, st, fr, a, name):
    return None


def x_exit(e, st, fr, a, name):
    raise PathEnd('exit')


def x_dynamic_cast(e, st, fr, a, name):
    """__dynamic_cast(obj, src_ti, dst_ti, hint) for single-inheritance hierarchies"""
    p = a[0]
    if p.__class__ is Ptr and p.obj == 0: return NULL
    vt = e.load(st, p, 'p', 8, 64)
    if vt.__class__ is not Ptr: raise Inconclusive("dynamic_cast on object without vtable pointer")
    ti = e.load(st, Ptr(vt.obj, vt.off - 8), 'p', 8, 64)
    off_to_top = e.load(st, Ptr(vt.obj, vt.off - 16), 'i', 8, 64)
    if off_to_top != 0: raise Inconclusive("dynamic_cast with multiple inheritance")
    dst = a[2]
    n = 0
    while ti.__class__ is Ptr and ti.obj != 0 and n < 32:
        if ti.obj == dst.obj and ti.off == dst.off: return p
        o = st.objs[ti.obj]
        if o.size < 24: return NULL        # __class_type_info: no base
        tvt = e.load(st, ti, 'p', 8, 64)
        nm = st.objs[tvt.obj].name if tvt.__class__ is Ptr and tvt.obj in st.objs else ''
        if 'si_class' not in nm:
            if 'vmi_class' in nm: raise Inconclusive("dynamic_cast through __vmi_class_type_info")
            return NULL
        ti = e.load(st, Ptr(ti.obj, ti.off + 16), 'p', 8, 64)
        n += 1
    return NULL


# ---------------------------------------------------------------- varargs (x86-64 SysV va_list, everything in the overflow area)
def x_va_start(e, st, fr, a, name):
    va = fr.va if fr.va is not None else []
    area = st.alloc(max(8 * len(va), 8), 'stack', 'varargs@' + fr.fn.name[1:40], 0)
    fr.allocas.append(area.obj)
    o = st.objs[area.obj]
    for i, v in enumerate(va):
        c = v.__class__
        if c is int: cells = list((v & mask(64)).to_bytes(8, 'little'))
        elif c is float: cells = list(struct.pack('<d', v))
        elif c in (Ptr, FnPtr): cells = [(v, j) for j in range(8)]
        elif c is PInt: cells = [(v.p, j) for j in range(8)]
        elif c is Undef: cells = [None] * 8
        elif isinstance(v, z3.BoolRef): cells = e.value_to_cells(z3.If(v, z3.BitVecVal(1, 64), z3.BitVecVal(0, 64)), 'i', 8, 64)
        elif isinstance(v, z3.BitVecRef): cells = e.value_to_cells(z3.ZeroExt(64 - v.size(), v) if v.size() < 64 else v, 'i', 8, 64)
        elif z3.is_fp(v):
            if v.sort().sbits() != 53: v = z3.fpFPToFP(z3.RNE(), v, z3.Float64())
            cells = [(v, j) for j in range(8)]
        else: raise Inconclusive("vararg %r" % (v,))
        o.data[8 * i:8 * i + 8] = cells
    ap = a[0]
    e.store(st, ap, 48, 'i', 4, 32)
    e.store(st, Ptr(ap.obj, ap.off + 4), 304, 'i', 4, 32)
    e.store(st, Ptr(ap.obj, ap.off + 8), area, 'p', 8, 64)
    e.store(st, Ptr(ap.obj, ap.off + 16), NULL, 'p', 8, 64)


def x_va_copy(e, st, fr, a, name):
    x_memcpy(e, st, fr, [a[0], a[1], 24], 'llvm.memcpy')


# ---------------------------------------------------------------- math
def _m1(f):
    def x(e, st, fr, a, name):
        v = a[0]
        if v.__class__ is not float:
            raise Inconclusive("%s on a symbolic value" % name)
        try: return f(v)
        except (ValueError, OverflowError): return float('nan')
    return x


def x_fabs(e, st, fr, a, name):
    v = a[0]
    return abs(v) if v.__class__ is float else z3.fpAbs(v)


def x_floor(e, st, fr, a, name):
    v = a[0]
    if v.__class__ is float:
        return float(math.floor(v)) if math.isfinite(v) else v
    return z3.fpRoundToIntegral(z3.RTN(), v)


def x_ceil(e, st, fr, a, name):
    v = a[0]
    if v.__class__ is float:
        return float(math.ceil(v)) if math.isfinite(v) else v
    return z3.fpRoundToIntegral(z3.RTP(), v)


def x_sqrt(e, st, fr, a, name):
    v = a[0]
    if v.__class__ is float:
        return math.sqrt(v) if v >= 0 else float('nan')
    return z3.fpSqrt(z3.RNE(), v)


def x_fmuladd(e, st, fr, a, name):
    x, y, z = a
    if x.__class__ is float and y.__class__ is float and z.__class__ is float:
        return x * y + z       # clang -O1 without -ffp-contract=fast on x86-64 emits separate mul+add
    k = 'double'
    return z3.fpAdd(z3.RNE(), z3.fpMul(z3.RNE(), fpv(x, k), fpv(y, k)), fpv(z, k))


def x_pow(e, st, fr, a, name):
    x, y = a
    if x.__class__ is float and y.__class__ is float:
        try: return math.pow(x, y)
        except (ValueError, OverflowError): return float('inf')
    raise Inconclusive("pow on symbolic values")


def x_fmod(e, st, fr, a, name):
    x, y = a
    if x.__class__ is float and y.__class__ is float:
        try: return math.fmod(x, y)
        except ValueError: return float('nan')
    return z3.fpRem(fpv(x, 'double'), fpv(y, 'double'))


def x_atan2(e, st, fr, a, name):
    x, y = a
    if x.__class__ is float and y.__class__ is float: return math.atan2(x, y)
    raise Inconclusive("atan2 on symbolic values")


# ---------------------------------------------------------------- libc number <-> text (concrete values only; the libc pair
# printf("%.17g") / strtod is trusted, not re-verified)
import re as _re


def x_vp_fmt_double(e, st, fr, a, name):
    out, cap, x, conv, prec, flags = a
    if x.__class__ is not float:
        raise Inconclusive("formatting of a symbolic double (libc %g is outside the encodable code)")
    conv = chr(_int(e, st, conv, 'conv')); prec = sx(_int(e, st, prec, 'prec'), 32); flags = _int(e, st, flags, 'flags')
    fmt = '%' + ('+' if flags & 1 else '') + (' ' if flags & 2 else '') + ('#' if flags & 4 else '') + ('.%d' % prec if prec >= 0 else '') + conv
    txt = (fmt % x).encode('latin1')
    cap = _int(e, st, cap, 'cap')
    txt = txt[:max(cap - 1, 0)]
    o = _cptr(e, st, out, len(txt) + 1, 'vp_fmt_double')
    for i, b in enumerate(txt + b'\0'):
        e.store(st, Ptr(o.obj, o.off + i), b, 'i', 1, 8)
    return len(txt)


_NUMRE = _re.compile(rb'[ \t\n\v\f\r]*([-+]?(?:(?:\d+\.?\d*|\.\d+)(?:[eE][-+]?\d+)?|inf(?:inity)?|nan))', _re.I)


def x_atof(e, st, fr, a, name):
    p0 = _cptr(e, st, a[0], 1, name)
    txt = e.read_cstr(st, p0)
    if txt is None:
        # symbolic bytes in a number text: fork over their feasible values (the parser has already constrained them
        # to digits / sign / exponent characters); more than 64 values -> inconclusive
        o = e.obj_of(st, p0, name)
        out = bytearray(); i = p0.off
        while True:
            if i >= o.size: raise Violation('memory', "%s reads past the end of %s" % (name, o.name))
            c = o.data[i]
            if c is None: raise Violation('uninit', "%s reads uninitialised memory" % name)
            if c.__class__ is not int:
                c = e.concretize(st, e.byte_expr(c), what='byte of number text')
            if c == 0: break
            out.append(c); i += 1
        txt = bytes(out)
    m = _NUMRE.match(txt)
    v = 0.0; end = 0
    if m:
        try: v = float(m.group(1)); end = m.end()
        except ValueError: v = 0.0
    if name == 'strtod' and len(a) > 1 and a[1].__class__ is Ptr and a[1].obj:
        e.store(st, a[1], Ptr(a[0].obj, a[0].off + end), 'p', 8, 64)
    return v


def x_localeconv(e, st, fr, a, name):
    lc = st.env.get('lconv')
    if lc is None:
        dp = st.alloc(2, 'global', 'decimal_point'); o = st.objs[dp.obj]; o.data[0] = 46; o.data[1] = 0
        p = st.alloc(96, 'global', 'lconv', 0)
        o = st.objs[p.obj]
        o.data[0:8] = [(dp, i) for i in range(8)]
        lc = p.obj
        st.env['lconv'] = lc
    return Ptr(lc, 0)


# ---------------------------------------------------------------- clock / process
def _tick(e, st):
    t = st.env.get('clock', 1700000000 * 1000000) + e.clock_step_us
    st.env['clock'] = t
    return t


def x_gettimeofday(e, st, fr, a, name):
    t = _tick(e, st)
    e.store(st, a[0], t // 1000000, 'i', 8, 64)
    e.store(st, Ptr(a[0].obj, a[0].off + 8), t % 1000000, 'i', 8, 64)
    return 0


def x_clock_gettime(e, st, fr, a, name):
    t = _tick(e, st)
    e.store(st, a[1], t // 1000000, 'i', 8, 64)
    e.store(st, Ptr(a[1].obj, a[1].off + 8), (t % 1000000) * 1000, 'i', 8, 64)
    return 0


def x_time(e, st, fr, a, name):
    t = _tick(e, st) // 1000000
    if a and a[0].__class__ is Ptr and a[0].obj:
        e.store(st, a[0], t, 'i', 8, 64)
    return t


def x_getpid(e, st, fr, a, name):
    return 4242


def x_sleep(e, st, fr, a, name):
    us = a[0] if a[0].__class__ is int else 1
    st.env['clock'] = st.env.get('clock', 1700000000 * 1000000) + (us * 1000000 if name == 'sleep' else us)
    return 0


def x_null(e, st, fr, a, name):
    return NULL


# ---------------------------------------------------------------- llvm.* intrinsics by prefix
def _minmax(op):
    def x(e, st, fr, a, name):
        w = int(name.rsplit('.i', 1)[1])
        x_, y = a[0], a[1]
        if x_.__class__ is int and y.__class__ is int:
            if op[0] == 's': X, Y = sx(x_, w), sx(y, w)
            else: X, Y = x_, y
            r = (max if op[1:] == 'max' else min)(X, Y)
            return r & mask(w)
        A = bv(x_, w); B = bv(y, w)
        c = {'smax': A > B, 'smin': A < B, 'umax': z3.UGT(A, B), 'umin': z3.ULT(A, B)}[op]
        return z3.If(c, A, B)
    return x


def x_fsh(e, st, fr, a, name):
    left = '.fshl.' in name
    w = int(name.rsplit('.i', 1)[1])
    x_, y, c = a
    if c.__class__ is not int:
        c = e.concretize(st, z3.URem(c, w), what='funnel shift amount')
    c %= w
    if x_.__class__ is int and y.__class__ is int:
        cat = (x_ << w) | y
        return ((cat << c) >> w) & mask(w) if left else (cat >> c) & mask(w)
    X = bv(x_, w); Y = bv(y, w)
    if c == 0: return X if left else Y
    r = ((X << c) | z3.LShR(Y, w - c)) if left else ((X << (w - c)) | z3.LShR(Y, c))
    return r if e.simp else z3.simplify(r)


def x_bswap(e, st, fr, a, name):
    w = int(name.rsplit('.i', 1)[1]); v = a[0]
    n = w // 8
    if v.__class__ is int:
        return int.from_bytes(v.to_bytes(n, 'little'), 'big')
    return e.S(z3.Concat(*[z3.Extract(8 * i + 7, 8 * i, v) for i in range(n)]))


def x_ctpop(e, st, fr, a, name):
    v = a[0]
    if v.__class__ is int: return bin(v).count('1')
    raise Inconclusive(name + " on symbolic value")


def x_ctlz(e, st, fr, a, name):
    w = int(name.rsplit('.i', 1)[1]); v = a[0]
    if v.__class__ is int:
        return w - v.bit_length()
    r = z3.BitVecVal(w, w)
    for i in range(w):
        r = z3.If(z3.Extract(i, i, v) == 1, z3.BitVecVal(w - 1 - i, w), r)
    return r


def x_cttz(e, st, fr, a, name):
    w = int(name.rsplit('.i', 1)[1]); v = a[0]
    if v.__class__ is int:
        return w if v == 0 else (v & -v).bit_length() - 1
    r = z3.BitVecVal(w, w)
    for i in reversed(range(w)):
        r = z3.If(z3.Extract(i, i, v) == 1, z3.BitVecVal(i, w), r)
    return r


def x_abs(e, st, fr, a, name):
    w = int(name.rsplit('.i', 1)[1]); v = a[0]
    if v.__class__ is int: return abs(sx(v, w)) & mask(w)
    return z3.If(v < 0, -v, v)


def _with_overflow(op):
    def x(e, st, fr, a, name):
        w = int(name.rsplit('.i', 1)[1]); x_, y = a
        signed = op[0] == 's'
        if x_.__class__ is int and y.__class__ is int:
            X, Y = (sx(x_, w), sx(y, w)) if signed else (x_, y)
            r = {'add': X + Y, 'sub': X - Y, 'mul': X * Y}[op[1:]]
            lo, hi = (-(1 << (w - 1)), (1 << (w - 1)) - 1) if signed else (0, mask(w))
            return Agg([r & mask(w), 0 if lo <= r <= hi else 1])
        A = bv(x_, w); B = bv(y, w)
        ext = z3.SignExt if signed else z3.ZeroExt
        EA = ext(w, A); EB = ext(w, B)
        ER = {'add': EA + EB, 'sub': EA - EB, 'mul': EA * EB}[op[1:]]
        R = z3.Extract(w - 1, 0, ER)
        return Agg([R, ext(w, R) != ER])
    return x


def x_objectsize(e, st, fr, a, name):
    return mask(64) if (a[1].__class__ is int and a[1] == 0) else 0


def x_trap(e, st, fr, a, name):
    raise Violation('abort', "llvm.trap reached")


PREFIX = [
    ('llvm.lifetime.', x_lifetime), ('llvm.dbg.', x_none), ('llvm.experimental.noalias', x_none), ('llvm.assume', x_none),
    ('llvm.invariant.', x_none), ('llvm.memcpy.', x_memcpy), ('llvm.memmove.', x_memcpy), ('llvm.memset.', x_memset),
    ('llvm.fshl.', x_fsh), ('llvm.fshr.', x_fsh), ('llvm.bswap.', x_bswap), ('llvm.ctpop.', x_ctpop), ('llvm.ctlz.', x_ctlz),
    ('llvm.cttz.', x_cttz), ('llvm.abs.', x_abs), ('llvm.smax.', _minmax('smax')), ('llvm.smin.', _minmax('smin')),
    ('llvm.umax.', _minmax('umax')), ('llvm.umin.', _minmax('umin')),
    ('llvm.sadd.with.overflow', _with_overflow('sadd')), ('llvm.uadd.with.overflow', _with_overflow('uadd')),
    ('llvm.ssub.with.overflow', _with_overflow('ssub')), ('llvm.usub.with.overflow', _with_overflow('usub')),
    ('llvm.smul.with.overflow', _with_overflow('smul')), ('llvm.umul.with.overflow', _with_overflow('umul')),
    ('llvm.fabs.', x_fabs), ('llvm.floor.', x_floor), ('llvm.ceil.', x_ceil), ('llvm.sqrt.', x_sqrt), ('llvm.fmuladd.', x_fmuladd),
    ('llvm.va_start', x_va_start), ('llvm.va_end', x_none), ('llvm.va_copy', x_va_copy), ('llvm.objectsize.', x_objectsize),
    ('llvm.trap', x_trap), ('llvm.stacksave', lambda e, st, fr, a, n: NULL), ('llvm.stackrestore', x_none),
    ('llvm.expect.', lambda e, st, fr, a, n: a[0]), ('llvm.prefetch', x_none),
]


def register(e):
    X = e.ext
    for n in ('malloc', '_Znwm', '_Znam'): X[n] = x_malloc
    X['calloc'] = x_calloc
    for n in ('free', '_ZdlPv', '_ZdaPv', '_ZdlPvm', '_ZdaPvm'): X[n] = x_free
    X['realloc'] = x_realloc
    X['memcpy'] = x_memcpy; X['memmove'] = x_memcpy; X['memset'] = x_memset
    X['memcmp'] = x_memcmp; X['bcmp'] = x_memcmp
    X['strlen'] = x_strlen; X['strcmp'] = x_strcmp; X['strncmp'] = x_strcmp
    X['strchr'] = x_strchr; X['strrchr'] = x_strchr; X['memchr'] = x_memchr
    X['nondet_u8'] = _nondet(8, 'u8'); X['nondet_u16'] = _nondet(16, 'u16'); X['nondet_u32'] = _nondet(32, 'u32')
    X['nondet_u64'] = _nondet(64, 'u64'); X['nondet_bool'] = _nondet(32, 'bool'); X['nondet_f64'] = _nondet(64, 'f64')
    X['vp_range'] = x_vp_range; X['vp_assume'] = x_vp_assume; X['vp_assert'] = x_vp_assert; X['vp_reach'] = x_vp_reach
    X['vp_note'] = x_vp_note; X['vp_param'] = x_vp_param; X['vp_concretize'] = x_vp_concretize
    X['vp_is_symbolic'] = x_vp_is_symbolic; X['vp_is_symbolic_l'] = x_vp_is_symbolic; X['vp_heap_live'] = x_vp_heap_live; X['vp_symbolic_run'] = x_vp_symbolic_run
    for n in ('__cxa_throw', '__cxa_rethrow', '__cxa_allocate_exception', '__cxa_begin_catch', '_ZSt17__throw_bad_allocv',
              '_ZSt20__throw_length_errorPKc', '__cxa_bad_cast', '__cxa_bad_typeid'): X[n] = x_throw
    for n in ('_ZSt9terminatev', 'abort', '__cxa_pure_virtual', '__assert_fail'): X[n] = x_terminate
    X['exit'] = x_exit; X['_exit'] = x_exit
    X['__cxa_atexit'] = x_zero; X['atexit'] = x_zero
    X['__cxa_guard_acquire'] = x_guard_acquire; X['__cxa_guard_release'] = x_guard_release; X['__cxa_guard_abort'] = x_none
    X['__dynamic_cast'] = x_dynamic_cast
    for n in ('pthread_mutex_init', 'pthread_mutex_lock', 'pthread_mutex_unlock', 'pthread_mutex_destroy', 'pthread_mutex_trylock',
              'pthread_mutexattr_init', 'pthread_mutexattr_settype', 'pthread_mutexattr_destroy', 'sched_yield'):
        X[n] = x_zero
    for n in ('printf', 'puts', 'putchar', 'fflush', 'perror'):
        if n not in X: X[n] = x_zero
    X['fabs'] = x_fabs; X['floor'] = x_floor; X['ceil'] = x_ceil; X['sqrt'] = x_sqrt; X['pow'] = x_pow; X['fmod'] = x_fmod
    X['atan2'] = x_atan2
    for n, f in (('sin', math.sin), ('cos', math.cos), ('tan', math.tan), ('acos', math.acos), ('asin', math.asin),
                 ('atan', math.atan), ('exp', math.exp), ('log', math.log), ('log10', math.log10)):
        X[n] = _m1(f)
    X['gettimeofday'] = x_gettimeofday; X['clock_gettime'] = x_clock_gettime; X['time'] = x_time; X['getpid'] = x_getpid
    X['sleep'] = x_sleep; X['usleep'] = x_sleep; X['getenv'] = x_null; X['setlocale'] = x_null; X['signal'] = x_null
    X['vp_fmt_double'] = x_vp_fmt_double; X['atof'] = x_atof; X['strtod'] = x_atof; X['localeconv'] = x_localeconv
    e.clock_step_us = 1000000
    e.ext_override = set()

    def ext_prefix(name):
        for p, h in PREFIX:
            if name.startswith(p):
                X[name] = h
                return h
        return None
    e.ext_prefix = ext_prefix
