#!/usr/bin/env python3
"""debug: run one harness instance with concrete inputs through the engine"""
import sys, os
sys.path.insert(0, os.path.dirname(os.path.abspath(__file__)))
import ir, llsym, json
linked, entry, params, inputs = sys.argv[1], sys.argv[2], sys.argv[3], sys.argv[4]
mod = ir.parse_module(open(linked).read())
eng = llsym.Engine(mod, params=[int(x) for x in params.split(',') if x], concrete_inputs=[int(x) for x in inputs.split(',') if x])
if len(sys.argv) > 5: eng.simp = True
eng.prepare('@' + entry)
eng.explore()
print(eng.paths_ended, eng.nq, [ (v['kind'], v['msg'], v['site']) for v in eng.violations], eng.inconclusive[:3])
print('notes', eng.validation[:1])
