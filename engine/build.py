"""Build steps shared by all checks: /repo sources + harness + env -> linked LLVM IR (for E-SYM)
and -> native ASan/UBSan binary (for replay and path-model validation)."""
import os, subprocess, hashlib, sys, time
from concurrent.futures import ThreadPoolExecutor

REPO = os.environ.get('VERIF_REPO', '/repo')
VERIF = os.path.dirname(os.path.dirname(os.path.abspath(__file__)))
CXXFLAGS = ['-std=c++11', '-DASL_STATIC', '-DNDEBUG', '-I' + REPO + '/include', '-I' + VERIF + '/env', '-I' + VERIF + '/harness']
IRFLAGS = ['-O1', '-fno-pic', '-fno-vectorize', '-fno-slp-vectorize', '-fno-unroll-loops', '-fno-strict-aliasing', '-S', '-emit-llvm', '-Xclang', '-disable-llvm-passes'][:8]


def run(cmd, **kw):
    r = subprocess.run(cmd, stdout=subprocess.PIPE, stderr=subprocess.STDOUT, universal_newlines=True, **kw)
    if r.returncode != 0:
        raise RuntimeError("command failed: %s\n%s" % (' '.join(cmd), r.stdout[-4000:]))
    return r.stdout


def build_ir(outdir, repo_sources, harness, env_c=('vlibc.c',), extra_cpp=(), defines=()):
    """returns path of the linked module"""
    os.makedirs(outdir, exist_ok=True)
    jobs = []
    for f in repo_sources:
        jobs.append((['clang++-14'] + CXXFLAGS + list(defines) + IRFLAGS + [REPO + '/src/' + f, '-o', outdir + '/' + f + '.ll']))
    for f in list(extra_cpp) + [harness]:
        jobs.append((['clang++-14'] + CXXFLAGS + list(defines) + IRFLAGS + [f, '-o', outdir + '/' + os.path.basename(f) + '.ll']))
    for f in env_c:
        src = f if f.startswith('/') else VERIF + '/env/' + f
        comp = ['clang++-14'] + CXXFLAGS if src.endswith('.cpp') else ['clang-14', '-I' + VERIF + '/env']
        jobs.append((comp + list(defines) + ['-fno-builtin'] + IRFLAGS + [src, '-o', outdir + '/' + os.path.basename(f) + '.ll']))
    with ThreadPoolExecutor(16) as ex:
        list(ex.map(run, jobs))
    outs = [j[-1] for j in jobs]
    linked = outdir + '/linked.ll'
    run(['llvm-link-14', '-S', '-o', linked] + outs)
    return linked


def _hdr_digest():
    h = hashlib.sha1()
    inc = REPO + '/include/asl'
    for f in sorted(os.listdir(inc)):
        h.update(f.encode()); h.update(open(inc + '/' + f, 'rb').read())
    for f in sorted(os.listdir(VERIF + '/env')):
        if f.endswith('.h'): h.update(open(VERIF + '/env/' + f, 'rb').read())
    return h.hexdigest()


def build_native(outdir, repo_sources, harness, extra_cpp=(), defines=(), sanitize=True):
    """native replay binary: harness + ALL of /repo/src (so every symbol resolves), ASan+UBSan.
    Objects of repo sources are cached by content hash of (flags, source, all headers): the cache only
    saves compile time, a changed source or header always recompiles."""
    os.makedirs(outdir, exist_ok=True)
    cache = os.environ.get('VP_CACHE', '/tmp/vp_cache')
    os.makedirs(cache, exist_ok=True)
    san = ['-fsanitize=address,undefined', '-fno-sanitize=signed-integer-overflow,shift-base,shift-exponent,alignment,bool', '-fno-sanitize-recover=undefined', '-fno-omit-frame-pointer'] if sanitize else []
    base = ['g++'] + CXXFLAGS + list(defines) + ['-DVP_NATIVE', '-O1', '-g', '-w', '-fno-strict-aliasing'] + san
    hd = _hdr_digest()
    jobs = []
    objs = []
    allsrc = sorted(f for f in os.listdir(REPO + '/src') if f.endswith('.cpp') and f != 'TlsSocket.cpp')
    for f in allsrc:
        src = REPO + '/src/' + f
        key = hashlib.sha1((' '.join(base) + hd).encode() + open(src, 'rb').read()).hexdigest()
        o = cache + '/' + key + '.o'
        objs.append(o)
        if not os.path.exists(o):
            jobs.append((base + ['-c', src, '-o', o + '.tmp%d_%d' % (os.getpid(), id(objs))], o))
    for f in list(extra_cpp) + [harness, VERIF + '/env/vp_native.cpp']:
        o = outdir + '/' + os.path.basename(f) + '.o'
        objs.append(o)
        if f.endswith('.c'):
            jobs.append((['gcc', '-DVP_NATIVE', '-O1', '-g', '-w', '-I' + VERIF + '/env'] + san + ['-c', f, '-o', o], None))
        else:
            jobs.append((base + ['-c', f, '-o', o], None))

    def comp(j):
        cmd, final = j
        run(cmd)
        if final: os.replace(cmd[-1], final)
    with ThreadPoolExecutor(16) as ex:
        list(ex.map(comp, jobs))
    exe = outdir + '/native'
    run(['g++'] + san + ['-rdynamic', '-o', exe] + objs + ['-ldl', '-lpthread'])
    return exe
