"""Pre-decoding of LLVM functions into flat instruction tuples for E-SYM.

Every operand becomes an index into the frame's register list; constants live at the
tail of that list (frame.regs = [None]*nregs + consts), so evaluation is regs[i].
"""
import struct
from ir import (P, TInt, TPtr, TFloat, TArr, TVec, TStruct, TNamed, TVoid, TFunc, TOpaque, TMeta, TLabel, I8P)
from symval import Ptr, NULL, FnPtr, PInt, Undef, Agg, mask, sx, f32round

BINOPS = {'add', 'sub', 'mul', 'udiv', 'sdiv', 'urem', 'srem', 'shl', 'lshr', 'ashr', 'and', 'or', 'xor'}
FBINOPS = {'fadd', 'fsub', 'fmul', 'fdiv', 'frem'}
CASTS = {'trunc', 'zext', 'sext', 'fptrunc', 'fpext', 'fptoui', 'fptosi', 'uitofp', 'sitofp', 'ptrtoint', 'inttoptr', 'bitcast', 'addrspacecast'}
FMF = {'nnan', 'ninf', 'nsz', 'arcp', 'contract', 'afn', 'reassoc', 'fast'}
CALLCONV = {'fastcc', 'ccc', 'coldcc', 'tail', 'musttail', 'notail'}
RET_ATTRS = {'noundef', 'nonnull', 'signext', 'zeroext', 'noalias', 'inreg'}


class DFunc(object):
    __slots__ = ('name', 'nregs', 'consts', 'blocks', 'labels', 'params', 'va', 'src', 'blocklen', 'regnames')


class Decoder(object):
    def __init__(s, mod, globals_, handlers):
        s.mod = mod
        s.globals = globals_      # name -> Ptr
        s.H = handlers            # opcode -> handler function
        s.cache = {}

    # ---------- types ----------
    def rt(s, t):
        return s.mod.resolve(t) if isinstance(t, TNamed) else t

    def tclass(s, t):
        """(cls, nbytes, w/kind)"""
        t = s.rt(t)
        if isinstance(t, TInt):
            return ('i', s.mod.sizeof(t), t.w)
        if isinstance(t, TPtr):
            return ('p', 8, 64)
        if isinstance(t, TFloat):
            return ('f', s.mod.sizeof(t), t.k)
        return ('agg', s.mod.sizeof(t), t)

    # ---------- constants ----------
    def cval(s, t, v):
        k = v[0]
        rt = s.rt(t)
        if k == 'ref':
            n = v[1]
            return s.gref(n)
        if k == 'num':
            if isinstance(rt, TFloat):
                x = float(v[1])
                return f32round(x) if rt.k == 'float' else x
            return int(v[1]) & mask(rt.w)
        if k == 'hexf':
            h = v[1]
            if h[2] in 'KLMHR':
                raise NotImplementedError("long double constant")
            x = struct.unpack('<d', struct.pack('<Q', int(h, 16)))[0]
            return x
        if k == 'null':
            return NULL
        if k in ('undef', 'poison'):
            if isinstance(rt, TPtr): return Undef(64)
            if isinstance(rt, TInt): return Undef(rt.w)
            if isinstance(rt, TFloat): return Undef(64 if rt.k == 'double' else 32)
            return s.zero_or_undef(rt, True)
        if k == 'zeroinitializer':
            return s.zero_or_undef(rt, False)
        if k == 'cgep':
            _, bt, pv, idx = v
            base = s.cval(TPtr(bt), pv)
            off = 0
            tt = bt
            first = True
            for it, iv in idx:
                i = sx(s.cval(it, iv), s.rt(it).w)
                if first:
                    off += i * s.mod.sizeof(tt); first = False
                else:
                    r = s.rt(tt)
                    if isinstance(r, TStruct):
                        off += s.mod.layout(r)[2][i]; tt = r.els[i]
                    else:
                        off += i * s.mod.sizeof(r.el); tt = r.el
            if isinstance(base, FnPtr):
                if off: raise NotImplementedError("gep on function")
                return base
            return Ptr(base.obj, base.off + off)
        if k == 'ccast':
            _, op, ft, fv, tt = v
            x = s.cval(ft, fv)
            if op in ('bitcast', 'addrspacecast'): return x
            if op == 'ptrtoint':
                if isinstance(x, Ptr) and x.obj == 0: return x.off
                return PInt(x)
            if op == 'inttoptr':
                if isinstance(x, PInt): return x.p
                return Ptr(0, x)
            rtt = s.rt(tt); rft = s.rt(ft)
            if isinstance(x, int):
                if op == 'trunc': return x & mask(rtt.w)
                if op == 'zext': return x
                if op == 'sext': return sx(x, rft.w) & mask(rtt.w)
            raise NotImplementedError("const cast %s of %r" % (op, x))
        if k == 'cbin':
            _, op, t1, v1, v2 = v
            a = s.cval(t1, v1); b = s.cval(t1, v2)
            w = s.rt(t1).w
            if isinstance(a, PInt) and isinstance(b, PInt) and op == 'sub' and a.p.obj == b.p.obj:
                return (a.p.off - b.p.off) & mask(w)
            if isinstance(a, PInt) and isinstance(b, int) and op in ('add', 'sub'):
                return PInt(Ptr(a.p.obj, a.p.off + (sx(b, w) if op == 'add' else -sx(b, w))))
            if isinstance(a, int) and isinstance(b, int):
                m = mask(w)
                return {'add': (a + b) & m, 'sub': (a - b) & m, 'mul': (a * b) & m, 'and': a & b, 'or': a | b, 'xor': a ^ b,
                        'shl': (a << b) & m, 'lshr': a >> b, 'ashr': (sx(a, w) >> b) & m}[op]
            raise NotImplementedError("const binop %s" % op)
        if k == 'cstruct':
            return Agg([s.cval(et, ev) for et, ev in v[1]])
        if k in ('carray', 'cvector'):
            return Agg([s.cval(et, ev) for et, ev in v[1]])
        if k == 'cstr':
            return Agg(list(cstr_bytes(v[1])))
        raise NotImplementedError("const " + k)

    def zero_or_undef(s, rt, undef):
        if isinstance(rt, TPtr): return Undef(64) if undef else NULL
        if isinstance(rt, TInt): return Undef(rt.w) if undef else 0
        if isinstance(rt, TFloat): return Undef(64) if undef else 0.0
        if isinstance(rt, TStruct): return Agg([s.zero_or_undef(s.rt(e), undef) for e in rt.els])
        if isinstance(rt, (TArr, TVec)): return Agg([s.zero_or_undef(s.rt(rt.el), undef) for _ in range(rt.n)])
        raise NotImplementedError("zeroinit of %r" % (rt,))

    def gref(s, n):
        seen = 0
        while n in s.mod.aliases:
            tgt = s.mod.aliases[n]
            if tgt[0] == 'ref':
                n = tgt[1]
            else:
                return s.cval(I8P, tgt)
            seen += 1
            if seen > 8: break
        if n in s.globals:
            return s.globals[n]
        if n in s.mod.funcs:
            return FnPtr(n)
        raise KeyError("unknown global " + n)

    # ---------- functions ----------
    def get(s, name):
        d = s.cache.get(name)
        if d is None:
            d = s.decode(s.mod.funcs[name])
            s.cache[name] = d
        return d

    def decode(s, fn):
        H = s.H
        d = DFunc()
        d.name = fn.name; d.va = fn.va
        regmap = {}
        consts = []
        constkey = {}
        NREG_BASE = [0]

        def reg(name):
            i = regmap.get(name)
            if i is None:
                i = len(regmap); regmap[name] = i
            return i

        def cst(val):
            key = None
            if val.__class__ is int: key = ('i', val)
            if key is not None and key in constkey:
                return constkey[key]
            consts.append(val)
            i = -len(consts)      # negative: fixed up to nregs+pos after decoding
            if key is not None: constkey[key] = i
            return i

        def opnd(t, v):
            if v[0] == 'ref' and v[1][0] == '%':
                return reg(v[1])
            return cst(s.cval(t, v))

        d.params = [reg(pn) for (pt, pn, at) in fn.params]
        blocks = fn.blocks
        labels = list(blocks.keys())
        lidx = {l: i for i, l in enumerate(labels)}
        d.labels = labels
        phis = [[] for _ in labels]       # per block: list of (dst, {predlabel: opnd})
        out = []
        for bi, lab in enumerate(labels):
            code = []
            for toks in blocks[lab]:
                p = P(toks)
                res = None
                if len(toks) > 1 and toks[1][1] == '=' and toks[0][0] in ('id', 'qid'):
                    res = reg(p.next()[1]); p.next()
                op = p.next()[1]
                while op in CALLCONV and p.peek()[1] in ('call',):
                    op = p.next()[1]
                if op == 'phi':
                    while p.peek()[1] in FMF: p.next()
                    t = p.type()
                    inc = {}
                    while True:
                        p.expect('['); v = p.value(t); p.expect(','); pred = p.next()[1]; p.expect(']')
                        inc[pred] = opnd(t, v)
                        if not p.accept(','): break
                    phis[bi].append((res, inc))
                    continue
                if op in BINOPS:
                    while p.peek()[1] in ('nuw', 'nsw', 'exact'): p.next()
                    t = p.type(); a = p.value(t); p.expect(','); b = p.value(t)
                    rt = s.rt(t)
                    if isinstance(rt, TVec): raise NotImplementedError("vector op in " + fn.name)
                    code.append((H['bin_' + op], res, rt.w, opnd(t, a), opnd(t, b)))
                elif op in FBINOPS:
                    while p.peek()[1] in FMF: p.next()
                    t = p.type(); a = p.value(t); p.expect(','); b = p.value(t)
                    code.append((H['fbin'], res, op, s.rt(t).k, opnd(t, a), opnd(t, b)))
                elif op == 'fneg':
                    while p.peek()[1] in FMF: p.next()
                    t = p.type(); a = p.value(t)
                    code.append((H['fneg'], res, s.rt(t).k, opnd(t, a)))
                elif op == 'icmp':
                    pred = p.next()[1]; t = p.type(); a = p.value(t); p.expect(','); b = p.value(t)
                    rt = s.rt(t)
                    code.append((H['icmp'], res, pred, (rt.w if isinstance(rt, TInt) else 0), opnd(t, a), opnd(t, b)))
                elif op == 'fcmp':
                    while p.peek()[1] in FMF: p.next()
                    pred = p.next()[1]; t = p.type(); a = p.value(t); p.expect(','); b = p.value(t)
                    code.append((H['fcmp'], res, pred, s.rt(t).k, opnd(t, a), opnd(t, b)))
                elif op in CASTS:
                    ft = p.type(); v = p.value(ft); p.expect('to'); tt = p.type()
                    rf = s.rt(ft); rtt = s.rt(tt)
                    fa = rf.w if isinstance(rf, TInt) else (rf.k if isinstance(rf, TFloat) else 64)
                    ta = rtt.w if isinstance(rtt, TInt) else (rtt.k if isinstance(rtt, TFloat) else 64)
                    if op == 'bitcast' and (isinstance(rf, TPtr) != isinstance(rtt, TPtr) or isinstance(rf, TFloat) != isinstance(rtt, TFloat)):
                        op = 'bitcast_fi'
                    code.append((H['cast_' + op], res, fa, ta, opnd(ft, v)))
                elif op == 'select':
                    while p.peek()[1] in FMF: p.next()
                    ct = p.type(); c = p.value(ct); p.expect(','); t = p.type(); a = p.value(t); p.expect(','); t2 = p.type(); b = p.value(t2)
                    cls = s.tclass(t)
                    code.append((H['select'], res, opnd(ct, c), opnd(t, a), opnd(t2, b), cls[0], cls[2]))
                elif op == 'freeze':
                    t = p.type(); code.append((H['copy'], res, opnd(t, p.value(t))))
                elif op == 'load':
                    vol = p.accept('atomic'); vol = p.accept('volatile') or vol
                    t = p.type(); p.expect(','); pt = p.type(); pv = p.value(pt)
                    cls = s.tclass(t)
                    code.append((H['vload' if vol else 'load'], res, opnd(pt, pv), cls[0], cls[1], cls[2]))
                elif op == 'store':
                    vol = p.accept('atomic'); vol = p.accept('volatile') or vol
                    t = p.type(); v = p.value(t); p.expect(','); pt = p.type(); pv = p.value(pt)
                    cls = s.tclass(t)
                    code.append((H['vstore' if vol else 'store'], None, opnd(pt, pv), opnd(t, v), cls[0], cls[1], cls[2]))
                elif op == 'getelementptr':
                    p.accept('inbounds')
                    bt = p.type(); p.expect(','); pt = p.type(); pv = p.value(pt)
                    coff = 0; terms = []
                    tt = bt; first = True
                    while p.accept(','):
                        if p.peek()[0] == 'meta': break
                        it = p.type(); iv = p.value(it)
                        itw = s.rt(it).w
                        if first:
                            sz = s.mod.sizeof(tt); first = False
                        else:
                            r = s.rt(tt)
                            if isinstance(r, TStruct):
                                k = int(iv[1])
                                coff += s.mod.layout(r)[2][k]; tt = r.els[k]
                                continue
                            sz = s.mod.sizeof(r.el); tt = r.el
                        if iv[0] == 'num':
                            coff += sx(int(iv[1]), itw) * sz
                        else:
                            terms.append((opnd(it, iv), sz, itw))
                    code.append((H['gep'], res, opnd(pt, pv), coff, tuple(terms)))
                elif op == 'alloca':
                    p.accept('inalloca')
                    t = p.type()
                    cnt = None
                    if p.accept(','):
                        if p.peek()[1] != 'align':
                            ct = p.type(); cnt = opnd(ct, p.value(ct))
                    code.append((H['alloca'], res, s.mod.sizeof(t), fn.name + toks[0][1], cnt))
                elif op == 'br':
                    if p.accept('label'):
                        code.append(['br', None, p.next()[1]])
                    else:
                        ct = p.type(); c = p.value(ct); p.expect(','); p.expect('label'); a = p.next()[1]; p.expect(','); p.expect('label'); b = p.next()[1]
                        code.append(['condbr', None, opnd(ct, c), a, b])
                elif op == 'switch':
                    t = p.type(); v = p.value(t); p.expect(','); p.expect('label'); dl = p.next()[1]
                    p.expect('[')
                    cases = []
                    while not p.accept(']'):
                        ct = p.type(); cv = p.value(ct); p.expect(','); p.expect('label'); cl = p.next()[1]
                        cases.append((s.cval(t, cv), cl))
                    code.append(['switch', None, opnd(t, v), s.rt(t).w, cases, dl])
                elif op == 'ret':
                    t = p.type()
                    code.append((H['ret'], None, -10**9 if isinstance(t, TVoid) else opnd(t, p.value(t))))
                elif op in ('call', 'invoke'):
                    while p.peek()[1] in CALLCONV or p.peek()[1] in FMF: p.next()
                    p.param_attrs()
                    rty = p.type()
                    if isinstance(rty, TPtr) and isinstance(rty.to, TFunc): rty = rty.to.ret
                    elif isinstance(rty, TFunc): rty = rty.ret
                    callee = p.value(I8P)
                    p.expect('(')
                    args = []
                    if not p.accept(')'):
                        while True:
                            at = p.type()
                            if isinstance(at, TMeta):
                                p.next(); args.append(None)
                            else:
                                p.param_attrs(); args.append(opnd(at, p.value(at)))
                            if p.accept(')'): break
                            p.expect(',')
                    normal = None
                    if op == 'invoke':
                        while p.peek()[1] != 'to': p.next()
                        p.next(); p.expect('label'); normal = p.next()[1]
                    if callee[0] == 'ref' and callee[1][0] == '@':
                        cname = callee[1]
                        n2 = 0
                        while cname in s.mod.aliases and s.mod.aliases[cname][0] == 'ref' and n2 < 8:
                            cname = s.mod.aliases[cname][1]; n2 += 1
                        cal = cname
                    else:
                        cal = opnd(I8P, callee)
                    rcls = None if isinstance(rty, TVoid) else s.tclass(rty)
                    code.append(['call', res, cal, tuple(args), normal, rcls, [None]])
                elif op == 'atomicrmw':
                    p.accept('volatile'); aop = p.next()[1]
                    pt = p.type(); pv = p.value(pt); p.expect(','); t = p.type(); v = p.value(t)
                    cls = s.tclass(t)
                    code.append((H['atomicrmw'], res, aop, opnd(pt, pv), opnd(t, v), cls[1], cls[2]))
                elif op == 'cmpxchg':
                    p.accept('weak'); p.accept('volatile')
                    pt = p.type(); pv = p.value(pt); p.expect(','); t = p.type(); cv = p.value(t); p.expect(','); t2 = p.type(); nv = p.value(t2)
                    cls = s.tclass(t)
                    code.append((H['cmpxchg'], res, opnd(pt, pv), opnd(t, cv), opnd(t2, nv), cls[0], cls[1], cls[2]))
                elif op == 'extractvalue':
                    t = p.type(); a = opnd(t, p.value(t)); idx = []
                    while p.accept(','): idx.append(int(p.next()[1]))
                    code.append((H['extractvalue'], res, a, tuple(idx)))
                elif op == 'insertvalue':
                    t = p.type(); a = opnd(t, p.value(t)); p.expect(','); vt = p.type(); v = opnd(vt, p.value(vt)); idx = []
                    while p.accept(','): idx.append(int(p.next()[1]))
                    code.append((H['insertvalue'], res, a, v, tuple(idx)))
                elif op == 'unreachable':
                    code.append((H['unreachable'], None))
                elif op == 'landingpad':
                    code.append((H['landingpad'], res))
                elif op == 'resume':
                    code.append((H['resume'], None))
                elif op == 'fence':
                    pass
                else:
                    raise NotImplementedError("decode %s in %s: %s" % (op, fn.name, ' '.join(t[1] for t in toks)))
            out.append(code)
        # second pass: resolve labels and phi moves
        nregs = len(regmap)

        def fix(i):
            return i if i >= 0 else nregs + (-i - 1)

        def moves(frm, to):
            ti = lidx[to]
            mv = []
            for dst, inc in phis[ti]:
                if frm not in inc:
                    raise KeyError("phi in %s:%s has no incoming for %s" % (fn.name, to, frm))
                mv.append((dst, fix(inc[frm])))
            return (ti, tuple(mv))

        def fixins(ins, lab):
            if isinstance(ins, list):
                k = ins[0]
                if k == 'br':
                    ti, mv = moves(lab, ins[2])
                    return (H['br'], None, ti, mv)
                if k == 'condbr':
                    t1, m1 = moves(lab, ins[3]); t2, m2 = moves(lab, ins[4])
                    return (H['condbr'], None, fix(ins[2]), t1, m1, t2, m2)
                if k == 'switch':
                    cases = tuple((cv,) + moves(lab, cl) for cv, cl in ins[4])
                    return (H['switch'], None, fix(ins[2]), ins[3], cases, moves(lab, ins[5]))
                if k == 'call':
                    normal = moves(lab, ins[4]) if ins[4] else None
                    cal = ins[2] if isinstance(ins[2], str) else fix(ins[2])
                    return (H['call'], ins[1], cal, tuple(None if a is None else fix(a) for a in ins[3]), normal, ins[5], ins[6])
                raise AssertionError(k)
            return ins

        # generic fix of negative operand indexes: every handler tuple lists which fields are operands
        OPF = s.H['_operand_fields']
        blocks2 = []
        for bi, code in enumerate(out):
            lab = labels[bi]
            nc = []
            for ins in code:
                ins = fixins(ins, lab)
                fields = OPF.get(ins[0])
                if fields:
                    l = list(ins)
                    for f in fields:
                        if l[f] is not None and l[f].__class__ is int and l[f] < 0 and l[f] != -10**9:
                            l[f] = fix(l[f])
                    if ins[0] is H['gep']:
                        l[4] = tuple((fix(r), sz, w) for r, sz, w in l[4])
                    ins = tuple(l)
                nc.append(ins)
            blocks2.append(nc)
        d.blocks = blocks2
        d.blocklen = [len(b) for b in blocks2]
        d.nregs = nregs
        d.consts = consts
        d.regnames = None
        return d


def cstr_bytes(tok):
    raw = tok[2:-1]
    out = bytearray()
    j = 0
    while j < len(raw):
        if raw[j] == '\\':
            if raw[j + 1] == '\\':
                out.append(92); j += 2
            else:
                out.append(int(raw[j + 1:j + 3], 16)); j += 3
        else:
            out.append(ord(raw[j])); j += 1
    return bytes(out)
