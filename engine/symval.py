"""Value and memory representation for E-SYM.

Values held in registers:
  int                 concrete integer, already masked to its width (i1: 0/1)
  z3 BitVecRef        symbolic integer (width > 1)
  z3 BoolRef          symbolic i1
  float               concrete float/double (floats are kept rounded to binary32)
  z3 FPRef            symbolic float/double
  Ptr(obj, off)       pointer: concrete object id, offset int or z3 BV64
  FnPtr(name)         function address
  PInt(ptr)           a pointer viewed as a 64-bit integer (ptrtoint)
  Undef(w)            indeterminate value (uninitialised memory / undef / poison)
  Agg(list)           first-class aggregate

Memory cell (one per byte): int 0..255 | None (uninitialised) | (value, i) = byte i
(little endian) of value, where value is a z3 BV/FP term, a Ptr or a FnPtr.
"""
import struct
import z3


class Ptr(object):
    __slots__ = ('obj', 'off')

    def __init__(s, obj, off):
        s.obj = obj; s.off = off

    def __repr__(s):
        return 'Ptr(%s,%s)' % (s.obj, s.off)


NULL = Ptr(0, 0)


class FnPtr(object):
    __slots__ = ('name',)

    def __init__(s, name): s.name = name
    def __repr__(s): return 'Fn(%s)' % s.name


class PInt(object):
    """a pointer-derived integer: sum of coeff*address(obj) + off (64-bit).  The common case is one object
    with coefficient 1 (plain ptrtoint); differences, negations (~p = -p-1) and sums arise from compiler-
    generated address arithmetic and cancel back to plain integers."""
    __slots__ = ('co', 'off', 'w')

    def __init__(s, p=None, co=None, off=0, w=64):
        s.w = w
        if p is not None:
            if p.__class__ is Ptr:
                s.co = ((p.obj, 1),); s.off = p.off
            else:
                s.co = ((p, 1),); s.off = 0
        else:
            s.co = co; s.off = off

    @property
    def p(s):
        if s.w == 64 and len(s.co) == 1 and s.co[0][1] == 1:
            o = s.co[0][0]
            if o.__class__ is int: return Ptr(o, s.off)
            return o          # FnPtr
        raise Inconclusive("integer built from several addresses used as a pointer: %r" % (s,))

    def __repr__(s): return 'PInt(%r,%r)' % (s.co, s.off)


def pint_lin(a, b, ka, kb, w=64):
    """ka*a + kb*b where a, b are PInt or plain 64-bit ints/terms; returns PInt or int/term"""
    co = {}
    off = 0
    for x, k in ((a, ka), (b, kb)):
        if x.__class__ is PInt:
            for o, c in x.co:
                if o == 0: continue       # the null object has address 0
                co[o] = co.get(o, 0) + c * k
            xo = x.off
        else:
            xo = x
        if xo.__class__ is int:
            if off.__class__ is int: off = off + k * xo
            else: off = off + (k * xo)
        else:
            off = off + (xo if k == 1 else -xo if k == -1 else xo * k)
    if off.__class__ is int:
        off &= (1 << 64) - 1
        if off >> 63: off -= 1 << 64
    co = tuple(sorted(((o, c) for o, c in co.items() if c != 0), key=lambda t: (str(type(t[0])), str(t[0]))))
    if not co:
        if off.__class__ is int: return off & ((1 << w) - 1)
        return off if w == 64 else z3.Extract(w - 1, 0, off)
    return PInt(co=co, off=off, w=w)


class Undef(object):
    """indeterminate value; mem=True: read from uninitialised memory (a branch/address on it ends the path as an
    'uninit' finding), mem=False: undef/poison/unmodelled arithmetic (materialised as an unconstrained value)"""
    __slots__ = ('w', 'mem')

    def __init__(s, w, mem=False): s.w = w; s.mem = mem
    def __repr__(s): return 'undef%d%s' % (s.w, 'm' if s.mem else '')


class Agg(list):
    pass


class Violation(Exception):
    """a property/memory violation on the current path; args: kind, message, model(optional)"""
    def __init__(s, kind, msg, model=None):
        Exception.__init__(s, kind, msg)
        s.kind = kind; s.msg = msg; s.model = model


class PathEnd(Exception):
    def __init__(s, why=''):
        Exception.__init__(s, why); s.why = why


class Inconclusive(Exception):
    """the engine cannot decide this path (unsupported construct, cap exceeded, solver unknown)"""
    pass


def mask(w):
    return (1 << w) - 1


def sx(v, w):
    v &= (1 << w) - 1
    return v - (1 << w) if v >> (w - 1) else v


def f32round(x):
    try:
        return struct.unpack('<f', struct.pack('<f', x))[0]
    except OverflowError:
        return float('inf') if x > 0 else float('-inf')


def is_sym(v):
    return isinstance(v, z3.ExprRef)


def bv(v, w):
    """to z3 bit-vector of width w"""
    if v.__class__ is int:
        return z3.BitVecVal(v, w)
    if isinstance(v, z3.BoolRef):
        return z3.If(v, z3.BitVecVal(1, w), z3.BitVecVal(0, w))
    return v


def to_bool(v):
    """i1 value -> python bool or z3 Bool"""
    if v.__class__ is int:
        return bool(v & 1)
    if isinstance(v, z3.BoolRef):
        return v
    if isinstance(v, z3.BitVecRef):
        return v == z3.BitVecVal(1, v.size()) if v.size() == 1 else z3.Extract(0, 0, v) == 1
    raise TypeError("to_bool %r" % (v,))


def fsort(k):
    return z3.Float64() if k == 'double' else z3.Float32()


def fpv(v, k):
    if isinstance(v, float):
        return z3.FPVal(v, fsort(k))
    if v.__class__ is int:
        return z3.FPVal(float(v), fsort(k))
    return v


class Obj(object):
    __slots__ = ('size', 'data', 'live', 'kind', 'name', 'seq')

    def __init__(s, size, kind, name='', seq=0, fill=None):
        s.size = size; s.data = [fill] * size; s.live = True; s.kind = kind; s.name = name; s.seq = seq

    def clone(s):
        o = Obj.__new__(Obj)
        o.size = s.size; o.data = list(s.data) if s.data is not None else None
        o.live = s.live; o.kind = s.kind; o.name = s.name; o.seq = s.seq
        return o


def cells_of_int(v, n):
    return list(v.to_bytes(n, 'little'))


def int_of_cells(cells):
    """all-concrete fast path; raises TypeError/ValueError otherwise"""
    return int.from_bytes(bytes(cells), 'little')
