#!/usr/bin/env python3
"""LLVM-14 textual IR reader for the E-SYM executor and the ll2c translator.

Parses types, globals, aliases and function headers eagerly; function bodies are kept
as raw lines and tokenised on first use (most of a linked asl module is never reached
by a given harness).  Typed pointers (clang-14 default) and opaque `ptr` both parse.
"""
import re, collections

TOK = re.compile(r'''
   (?P<ws>\s+)
 | (?P<cstr>c"(?:[^"\\]|\\[0-9A-Fa-f]{2}|\\\\)*")
 | (?P<qid>[%@$]"(?:[^"\\]|\\.)*")
 | (?P<id>[%@$][-a-zA-Z$._0-9]+)
 | (?P<meta>![-a-zA-Z$._0-9]*|!"[^"]*")
 | (?P<attrgrp>\#\d+)
 | (?P<hexf>0x[KLMHR]?[0-9A-Fa-f]+)
 | (?P<num>-?\d+\.\d*(?:[eE][-+]?\d+)?|-?\d+)
 | (?P<str>"(?:[^"\\]|\\.)*")
 | (?P<word>[a-zA-Z_][a-zA-Z_0-9.]*)
 | (?P<dots>\.\.\.)
 | (?P<p>[()\[\]{}<>,=*:|])
''', re.X)


def tokenize(s):
    out = []
    i = 0
    n = len(s)
    while i < n:
        if s[i] == ';':
            break
        m = TOK.match(s, i)
        if not m:
            raise SyntaxError("tok: %r" % s[i:i + 40])
        i = m.end()
        k = m.lastgroup
        if k == 'ws':
            continue
        out.append((k, m.group(k)))
    return out


# ---------------- types ----------------
class T:
    pass


class TVoid(T):
    def __repr__(s): return 'void'


class TInt(T):
    def __init__(s, w): s.w = w
    def __repr__(s): return 'i%d' % s.w


class TFloat(T):
    def __init__(s, k): s.k = k
    def __repr__(s): return s.k


class TPtr(T):
    def __init__(s, to): s.to = to
    def __repr__(s): return '%r*' % (s.to,)


class TArr(T):
    def __init__(s, n, el): s.n = n; s.el = el
    def __repr__(s): return '[%d x %r]' % (s.n, s.el)


class TVec(T):
    def __init__(s, n, el): s.n = n; s.el = el
    def __repr__(s): return '<%d x %r>' % (s.n, s.el)


class TStruct(T):
    def __init__(s, els, packed=False, name=None): s.els = els; s.packed = packed; s.name = name
    def __repr__(s): return s.name or ('{%s}' % ','.join(map(repr, s.els)))


class TNamed(T):
    def __init__(s, name): s.name = name
    def __repr__(s): return s.name


class TFunc(T):
    def __init__(s, ret, args, va): s.ret = ret; s.args = args; s.va = va
    def __repr__(s): return '%r(%s%s)' % (s.ret, ','.join(map(repr, s.args)), ',...' if s.va else '')


class TOpaque(T):
    def __repr__(s): return 'opaque'


class TMeta(T):
    pass


class TLabel(T):
    pass


I8 = TInt(8)
I8P = TPtr(I8)

LINKAGE = {'private', 'internal', 'external', 'linkonce_odr', 'weak_odr', 'linkonce', 'weak', 'common',
           'available_externally', 'appending', 'extern_weak', 'dso_local', 'dso_preemptable',
           'unnamed_addr', 'local_unnamed_addr', 'hidden', 'protected', 'default', 'thread_local',
           'externally_initialized', 'fastcc', 'ccc', 'coldcc'}


class P:
    """token stream parser"""
    def __init__(s, toks):
        s.t = toks; s.i = 0

    def peek(s, k=0):
        return s.t[s.i + k] if s.i + k < len(s.t) else (None, None)

    def next(s):
        x = s.t[s.i]; s.i += 1; return x

    def accept(s, v):
        if s.i < len(s.t) and s.t[s.i][1] == v:
            s.i += 1; return True
        return False

    def expect(s, v):
        x = s.next()
        if x[1] != v:
            raise SyntaxError("expected %r got %r at %d in %r" % (v, x, s.i, ' '.join(t[1] for t in s.t)))

    def done(s):
        return s.i >= len(s.t)

    def type(s):
        k, v = s.next()
        if k == 'word':
            if v == 'void': t = TVoid()
            elif v[0] == 'i' and v[1:].isdigit(): t = TInt(int(v[1:]))
            elif v in ('float', 'double', 'x86_fp80', 'half', 'fp128'): t = TFloat(v)
            elif v == 'opaque': t = TOpaque()
            elif v == 'metadata': t = TMeta()
            elif v == 'label': t = TLabel()
            elif v == 'ptr': t = TPtr(I8)
            elif v == 'token': t = TMeta()
            else: raise SyntaxError("type word " + v)
        elif k in ('id', 'qid') and v[0] == '%':
            t = TNamed(v)
        elif v == '[':
            n = int(s.next()[1]); s.expect('x'); el = s.type(); s.expect(']')
            t = TArr(n, el)
        elif v == '{':
            els = []
            if not s.accept('}'):
                while True:
                    els.append(s.type())
                    if s.accept('}'): break
                    s.expect(',')
            t = TStruct(els)
        elif v == '<':
            if s.peek()[1] == '{':
                s.next()
                els = []
                if not s.accept('}'):
                    while True:
                        els.append(s.type())
                        if s.accept('}'): break
                        s.expect(',')
                s.expect('>')
                t = TStruct(els, packed=True)
            else:
                n = int(s.next()[1]); s.expect('x'); el = s.type(); s.expect('>')
                t = TVec(n, el)
        else:
            raise SyntaxError("type? %r" % ((k, v),))
        while True:
            nx = s.peek()[1]
            if nx == '*':
                s.next(); t = TPtr(t)
            elif nx == '(':
                s.next()
                args = []; va = False
                if not s.accept(')'):
                    while True:
                        if s.peek()[0] == 'dots':
                            s.next(); va = True
                        else:
                            args.append(s.type())
                        if s.accept(')'): break
                        s.expect(',')
                t = TFunc(t, args, va)
            elif nx == 'addrspace' and s.peek()[0] == 'word':
                s.next(); s.expect('('); s.next(); s.expect(')')
            else:
                break
        return t

    PARAM_ATTRS = {'noundef', 'nonnull', 'nocapture', 'readonly', 'writeonly', 'readnone', 'signext', 'zeroext', 'noalias',
                   'returned', 'immarg', 'inreg', 'nest', 'nofree', 'swiftself', 'swifterror', 'inalloca', 'noreturn'}

    def param_attrs(s):
        d = {}
        while True:
            k, v = s.peek()
            if k != 'word':
                break
            if v in s.PARAM_ATTRS:
                s.next()
            elif v == 'align':
                s.next()
                if s.accept('('):
                    s.next(); s.expect(')')
                else:
                    s.next()
            elif v in ('dereferenceable', 'dereferenceable_or_null'):
                s.next(); s.expect('('); s.next(); s.expect(')')
            elif v in ('byval', 'sret', 'byref', 'preallocated', 'elementtype'):
                s.next(); s.expect('('); d[v] = s.type(); s.expect(')')
            else:
                break
        return d

    def value(s, ty):
        k, v = s.next()
        if k in ('id', 'qid'):
            return ('ref', v)
        if k == 'num':
            return ('num', v)
        if k == 'hexf':
            return ('hexf', v)
        if k == 'cstr':
            return ('cstr', v)
        if k == 'word':
            if v in ('true', 'false'): return ('num', '1' if v == 'true' else '0')
            if v in ('null', 'zeroinitializer', 'undef', 'poison', 'none'): return (v,)
            if v == 'getelementptr':
                s.accept('inbounds')
                s.expect('(')
                bt = s.type(); s.expect(',')
                pt = s.type(); pv = s.value(pt)
                idx = []
                while s.accept(','):
                    s.accept('inrange')
                    it = s.type(); idx.append((it, s.value(it)))
                s.expect(')')
                return ('cgep', bt, pv, idx)
            if v in ('bitcast', 'ptrtoint', 'inttoptr', 'trunc', 'zext', 'sext', 'addrspacecast'):
                s.expect('(')
                ft = s.type(); fv = s.value(ft); s.expect('to'); tt = s.type(); s.expect(')')
                return ('ccast', v, ft, fv, tt)
            if v in ('add', 'sub', 'mul', 'and', 'or', 'xor', 'shl', 'lshr', 'ashr'):
                while s.peek()[1] in ('nuw', 'nsw', 'exact'): s.next()
                s.expect('(')
                t1 = s.type(); v1 = s.value(t1); s.expect(','); t2 = s.type(); v2 = s.value(t2); s.expect(')')
                return ('cbin', v, t1, v1, v2)
            if v == 'icmp':
                pred = s.next()[1]
                s.expect('(')
                t1 = s.type(); v1 = s.value(t1); s.expect(','); t2 = s.type(); v2 = s.value(t2); s.expect(')')
                return ('cicmp', pred, t1, v1, v2)
            if v == 'select':
                s.expect('(')
                t0 = s.type(); v0 = s.value(t0); s.expect(',')
                t1 = s.type(); v1 = s.value(t1); s.expect(','); t2 = s.type(); v2 = s.value(t2); s.expect(')')
                return ('cselect', v0, t1, v1, v2)
            if v == 'dso_local_equivalent':
                return s.value(ty)
            raise SyntaxError("value word " + v)
        if v == '{' or (v == '<' and s.peek()[1] == '{'):
            packed = False
            if v == '<':
                s.next(); packed = True
            els = []
            if not s.accept('}'):
                while True:
                    et = s.type(); els.append((et, s.value(et)))
                    if s.accept('}'): break
                    s.expect(',')
            if packed: s.expect('>')
            return ('cstruct', els)
        if v == '[':
            els = []
            if not s.accept(']'):
                while True:
                    et = s.type(); els.append((et, s.value(et)))
                    if s.accept(']'): break
                    s.expect(',')
            return ('carray', els)
        if v == '<':
            els = []
            while True:
                et = s.type(); els.append((et, s.value(et)))
                if s.accept('>'): break
                s.expect(',')
            return ('cvector', els)
        raise SyntaxError("value? %r" % ((k, v),))


class Func:
    def __init__(s):
        s.name = None; s.ret = None; s.params = []; s.va = False
        s.defined = False; s.lines = None; s.nextnum = 0
        s._blocks = None

    @property
    def blocks(s):
        """OrderedDict label -> list of token lists (lazy)"""
        if s._blocks is None:
            s._blocks = parse_body(s)
        return s._blocks


class Module:
    def __init__(s):
        s.types = collections.OrderedDict()    # name -> T
        s.globals = collections.OrderedDict()  # name -> (type, init or None, const)
        s.aliases = {}
        s.funcs = collections.OrderedDict()
        s._layout = {}

    # ---- data layout (x86-64) ----
    def resolve(s, t):
        while isinstance(t, TNamed):
            t = s.types[t.name]
        return t

    def sizeof(s, t):
        return s.layout(t)[0]

    def alignof(s, t):
        return s.layout(t)[1]

    def layout(s, t):
        """(size, align, field offsets or None)"""
        k = id(t)
        r = s._layout.get(k)
        if r is not None and r[3] is t:
            return r
        r = s._layout_(t) + (t,)
        s._layout[k] = r
        return r

    def _layout_(s, t):
        if isinstance(t, TNamed):
            r = s.layout(s.types[t.name]); return r[:3]
        if isinstance(t, TInt):
            n = (t.w + 7) // 8
            a = 1
            while a < n and a < 8: a *= 2
            if n > 8: n = (n + 7) // 8 * 8
            elif n not in (1, 2, 4, 8): n = a
            return (n, a, None)
        if isinstance(t, TPtr): return (8, 8, None)
        if isinstance(t, TFloat):
            return {'float': (4, 4, None), 'double': (8, 8, None), 'half': (2, 2, None), 'x86_fp80': (16, 16, None), 'fp128': (16, 16, None)}[t.k]
        if isinstance(t, TArr):
            es, ea, _ = s.layout(t.el)[:3]
            return (es * t.n, ea, None)
        if isinstance(t, TVec):
            es, ea, _ = s.layout(t.el)[:3]
            n = es * t.n
            return (n, min(n, 16) if n & (n - 1) == 0 else ea, None)
        if isinstance(t, TStruct):
            off = 0; al = 1; offs = []
            for e in t.els:
                es, ea, _ = s.layout(e)[:3]
                if t.packed: ea = 1
                off = (off + ea - 1) // ea * ea
                offs.append(off)
                off += es
                al = max(al, ea)
            off = (off + al - 1) // al * al
            return (off, al, offs)
        if isinstance(t, (TOpaque, TVoid, TFunc)):
            return (0, 1, None)
        raise TypeError("layout of %r" % (t,))


def parse_body(f):
    blocks = collections.OrderedDict()
    lines = f.lines
    cur = None
    i = 0
    n = len(lines)
    labre = re.compile(r'^([-a-zA-Z$._0-9]+|"[^"]*"):')
    while i < n:
        st = lines[i].strip(); i += 1
        if not st or st[0] == ';':
            continue
        m = labre.match(st)
        if m:
            cur = []
            blocks['%' + m.group(1)] = cur
            continue
        if cur is None:
            cur = []
            blocks['%' + str(f.nextnum)] = cur
        if st.startswith('switch ') and not st.rstrip().endswith(']'):
            while not lines[i].strip().startswith(']'):
                st += ' ' + lines[i].strip(); i += 1
            st += ' ]'; i += 1
        if i < n and lines[i].strip().startswith('to label'):
            st += ' ' + lines[i].strip(); i += 1
        if ' landingpad ' in st or st.startswith('landingpad'):
            while i < n and re.match(r'^\s+(cleanup|catch|filter)', lines[i]):
                st += ' ' + lines[i].strip(); i += 1
        cur.append(tokenize(st))
    return blocks


def parse_module(text):
    mod = Module()
    m_ = __import__('re').search(r'^@llvm\.global_ctors = .*$', text, __import__('re').M)
    mod.text = m_.group(0) if m_ else ''      # only the constructor table is kept
    lines = text.split('\n')
    i = 0
    n = len(lines)
    while i < n:
        ln = lines[i]; i += 1
        if not ln:
            continue
        c0 = ln[0]
        if c0 == ';' or c0 == '!' or c0 == '$' or c0 == ' ' or c0 == '\t':
            continue
        if c0 == '%' and ' = type ' in ln:
            p = P(tokenize(ln))
            name = p.next()[1]; p.expect('='); p.expect('type')
            t = p.type()
            if isinstance(t, TStruct): t.name = name
            mod.types[name] = t
            continue
        if c0 == '@':
            p = P(tokenize(ln))
            name = p.next()[1]; p.expect('=')
            kind = None
            while True:
                k, v = p.peek()
                if k == 'word' and v in LINKAGE:
                    p.next()
                    if v in ('external', 'extern_weak'): kind = 'external'
                    if v == 'thread_local' and p.peek()[1] == '(':
                        p.next(); p.next(); p.expect(')')
                else:
                    break
            k, v = p.next()
            if v == 'alias':
                t = p.type(); p.expect(',')
                t2 = p.type(); tgt = p.value(t2)
                mod.aliases[name] = tgt
                continue
            const = (v == 'constant')
            t = p.type()
            init = None
            if kind != 'external' and not p.done() and p.peek()[1] != ',':
                init = p.value(t)
            mod.globals[name] = (t, init, const)
            continue
        if ln.startswith('declare') or ln.startswith('define'):
            # header may contain a trailing '{'
            p = P(tokenize(ln))
            isdef = p.next()[1] == 'define'
            while True:
                k, v = p.peek()
                if k == 'word' and v in LINKAGE:
                    p.next()
                else:
                    break
            p.param_attrs()
            f = Func()
            f.ret = p.type()
            f.name = p.next()[1]
            p.expect('(')
            if not p.accept(')'):
                while True:
                    if p.peek()[0] == 'dots':
                        p.next(); f.va = True
                    else:
                        pt = p.type(); at = p.param_attrs()
                        pn = None
                        if p.peek()[0] in ('id', 'qid'):
                            pn = p.next()[1]
                        f.params.append((pt, pn, at))
                    if p.accept(')'): break
                    p.expect(',')
            f.defined = isdef
            if isdef:
                cnt = 0
                np_ = []
                for (pt, pn, at) in f.params:
                    if pn is None:
                        pn = '%' + str(cnt); cnt += 1
                    elif pn[1:].isdigit():
                        cnt = int(pn[1:]) + 1
                    np_.append((pt, pn, at))
                f.params = np_
                f.nextnum = cnt
                j = i
                while lines[j] != '}':
                    j += 1
                f.lines = lines[i:j]
                i = j + 1
            if f.name not in mod.funcs or isdef:
                mod.funcs[f.name] = f
            continue
        if ln.startswith(('target ', 'source_filename', 'attributes ', 'module asm')):
            continue
        raise SyntaxError("toplevel: " + ln)
    return mod


if __name__ == '__main__':
    import sys, time
    t = time.time()
    m = parse_module(open(sys.argv[1]).read())
    print(len(m.types), 'types', len(m.globals), 'globals', len(m.funcs), 'funcs', '%.2fs' % (time.time() - t))
