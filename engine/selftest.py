#!/usr/bin/env python3
"""setup-time self test: tool versions present, engine imports, tiny symbolic run"""
import sys, os, subprocess
sys.path.insert(0, os.path.dirname(os.path.abspath(__file__)))
import z3, ir, llsym, build
for t in ('clang++-14', 'llvm-link-14', 'g++'):
    subprocess.run([t, '--version'], stdout=subprocess.DEVNULL, check=True)
print('selftest ok: z3', z3.get_version_string())
