/* In-memory model of listening stream sockets at the system-call level (socket/bind/listen/select/accept/read/send/
   close), executed symbolically as IR together with the thread model (engine/threads_sym.py).
   Contract: select() reports a listening socket readable when a connection is pending, a connection readable when it
   has unread bytes or its peer closed; when nothing is ready the calling thread yields once (every other runnable
   thread may run) and the readiness is evaluated again - a 0 result is the timeout.  accept() returns the oldest
   pending connection.  A blocking read on a connection with no data and an open peer yields until one of them changes. */
#include <stddef.h>
#include "vp.h"
#include "vsrv.h"
int sched_yield(void);
void vp_sched_point(void);   /* thread model: the scheduler may preempt the calling thread here (system calls are interleaving points) */
#define NL 2
#define NC 6
#define LFD0 200
#define CFD0 210
#define CCAP 384
struct vlis { int used, listening, open; };
struct vcon { int used, accepted, open, peer_closed, in_n, in_pos, out_n, lis; unsigned char in[CCAP], out[CCAP]; };
static struct vlis L[NL];
static struct vcon C[NC];
static struct vlis* LS(int fd) { int i = fd - LFD0; return (i >= 0 && i < NL && L[i].used) ? &L[i] : 0; }
static struct vcon* CS(int fd) { int i = fd - CFD0; return (i >= 0 && i < NC && C[i].used && C[i].accepted) ? &C[i] : 0; }

int vp_srv_port(void) { return 8080; }
int vp_cli_connect(const unsigned char* data, int n)
{
	int l = -1;
	for (int i = 0; i < NL; i++) if (L[i].used && L[i].listening && L[i].open) { l = i; break; }
	if (l < 0) return -1;
	for (int i = 0; i < NC; i++) if (!C[i].used) {
		C[i].used = 1; C[i].accepted = 0; C[i].open = 1; C[i].peer_closed = 0; C[i].in_n = 0; C[i].in_pos = 0; C[i].out_n = 0; C[i].lis = l;
		for (int k = 0; k < n && k < CCAP; k++) C[i].in[C[i].in_n++] = data[k];
		return i;
	}
	return -1;
}
int vp_cli_recv(int h, unsigned char* out, int cap) { int n = C[h].out_n < cap ? C[h].out_n : cap; for (int i = 0; i < n; i++) out[i] = C[h].out[i]; return C[h].out_n; }
void vp_cli_close(int h) { C[h].peer_closed = 1; }
int vp_srv_accepted(int h) { return C[h].accepted; }
void vp_cli_send(int h, const unsigned char* data, int n) { for (int k = 0; k < n && C[h].in_n < CCAP; k++) C[h].in[C[h].in_n++] = data[k]; }
int vp_srv_closed_by_server(int h) { return C[h].accepted && !C[h].open; }

int socket(int dom, int type, int proto) { (void)dom; (void)type; (void)proto; for (int i = 0; i < NL; i++) if (!L[i].used) { L[i].used = 1; L[i].listening = 0; L[i].open = 1; return LFD0 + i; } return -1; }
int bind(int fd, const void* addr, unsigned len) { (void)addr; (void)len; return LS(fd) ? 0 : -1; }
int listen(int fd, int n) { (void)n; struct vlis* l = LS(fd); if (!l) return -1; l->listening = 1; return 0; }
int accept(int fd, void* addr, unsigned* len)
{
	(void)addr; (void)len;
	struct vlis* l = LS(fd);
	if (!l || !l->open) return -1;
	for (int i = 0; i < NC; i++) if (C[i].used && !C[i].accepted && C[i].lis == fd - LFD0) { C[i].accepted = 1; return CFD0 + i; }
	return -1;
}
static int ready(int fd)
{
	struct vlis* l = LS(fd);
	if (l) { if (!l->open) return 0; for (int i = 0; i < NC; i++) if (C[i].used && !C[i].accepted && C[i].lis == fd - LFD0) return 1; return 0; }
	struct vcon* c = CS(fd);
	if (c) return c->open && (c->in_n - c->in_pos > 0 || c->peer_closed);
	return 0;
}
int select(int nfds, void* rset, void* wset, void* eset, void* timeout)
{
	(void)wset; (void)eset; (void)timeout;
	unsigned long* r = (unsigned long*)rset;
	if (!r) { sched_yield(); return 0; }
	int any = 0;
	for (int fd = LFD0; fd < nfds && fd < CFD0 + NC; fd++) if ((r[fd / 64] >> (fd % 64)) & 1) any |= ready(fd);
	if (!any) sched_yield();
	int n = 0;
	for (int fd = 0; fd < nfds && fd < CFD0 + NC; fd++) {
		unsigned long bit = 1UL << (fd % 64);
		if (!(r[fd / 64] & bit)) continue;
		if (ready(fd)) n++; else r[fd / 64] &= ~bit;
	}
	return n;
}
long read(int fd, void* buf, size_t size)
{
	struct vcon* c = CS(fd);
	if (!c || !c->open) return -1;
	for (int spin = 0; spin < 4 && c->in_n - c->in_pos == 0 && !c->peer_closed; spin++) sched_yield();
	long n = c->in_n - c->in_pos;
	if ((long)size < n) n = (long)size;
	for (long i = 0; i < n; i++) ((unsigned char*)buf)[i] = c->in[c->in_pos + i];
	c->in_pos += (int)n;
	return n;
}
long recv(int fd, void* buf, size_t size, int flags) { (void)flags; return read(fd, buf, size); }
long send(int fd, const void* buf, size_t size, int flags)
{
	(void)flags;
	struct vcon* c = CS(fd);
	if (!c || !c->open) return -1;
	vp_sched_point();
	if (c->peer_closed) return -1;
	for (size_t i = 0; i < size && c->out_n < CCAP; i++) c->out[c->out_n++] = ((const unsigned char*)buf)[i];
	return (long)size;
}
long write(int fd, const void* buf, size_t size) { return send(fd, buf, size, 0); }
int close(int fd)
{
	struct vlis* l = LS(fd);
	if (l) { vp_assert(l->open, "close() of a listening socket that is already closed"); l->open = 0; return 0; }
	struct vcon* c = CS(fd);
	if (c) { vp_assert(c->open, "close() of a connection that is already closed (double close of a descriptor)"); c->open = 0; return 0; }
	return -1;
}
int shutdown(int fd, int how) { (void)fd; (void)how; return 0; }
int ioctl(int fd, unsigned long req, ...)
{
	__builtin_va_list ap; __builtin_va_start(ap, req); long* p = __builtin_va_arg(ap, long*); __builtin_va_end(ap);
	struct vcon* c = CS(fd);
	if (!c || !c->open) return -1;
	*p = c->in_n - c->in_pos;
	return 0;
}
int setsockopt(int fd, int level, int opt, const void* v, unsigned len) { (void)fd; (void)level; (void)opt; (void)v; (void)len; return 0; }
int getsockopt(int fd, int level, int opt, void* v, unsigned* len) { (void)fd; (void)level; (void)opt; (void)v; (void)len; return 0; }
int fcntl(int fd, int cmd, ...) { (void)fd; (void)cmd; return 0; }
int getpeername(int fd, void* addr, unsigned* len) { (void)fd; unsigned char* a = (unsigned char*)addr; for (unsigned i = 0; i < 16 && i < *len; i++) a[i] = 0; a[0] = 2; a[2] = 0x9c; a[3] = 0x40; a[4] = 127; a[7] = 1; *len = 16; return 0; }
int getsockname(int fd, void* addr, unsigned* len) { return getpeername(fd, addr, len); }
static struct { int flags, family, socktype, protocol; unsigned addrlen; void* addr; char* canon; void* next; } vai;
static unsigned char vsa[16];
int getaddrinfo(const char* host, const char* service, const void* hints, void** res)
{
	(void)host; (void)service; (void)hints;
	for (int i = 0; i < 16; i++) vsa[i] = 0;
	vsa[0] = 2; vsa[2] = 0x1f; vsa[3] = 0x90; vsa[4] = 127; vsa[7] = 1;
	vai.flags = 0; vai.family = 2; vai.socktype = 1; vai.protocol = 6; vai.addrlen = 16; vai.addr = vsa; vai.canon = 0; vai.next = 0;
	*res = &vai;
	return 0;
}
void freeaddrinfo(void* p) { (void)p; }

