// native counterpart of env/vsock.c for replays: a real AF_UNIX socketpair; fed bytes are written by the harness side,
// peer close = shutdown of the peer end.  (Fragmentation of reads is up to the kernel here.)
#include <sys/socket.h>
#include <unistd.h>
#include <poll.h>
#include <string.h>
#include "vsock.h"
static int peer[1024];
extern "C" {
int vp_sock_new(void) { int sv[2]; if (socketpair(AF_UNIX, SOCK_STREAM, 0, sv)) return -1; peer[sv[0]] = sv[1]; return sv[0]; }
void vp_sock_feed(int fd, const void* data, int n) { if (n > 0) { ssize_t r = ::write(peer[fd], data, n); (void)r; } }
void vp_sock_peer_close(int fd) { shutdown(peer[fd], SHUT_WR); }
int vp_sock_sent(int fd, void* out, int cap)
{
	int n = 0; char* o = (char*)out;
	while (n < cap) { struct pollfd p; p.fd = peer[fd]; p.events = POLLIN; if (poll(&p, 1, 50) <= 0 || !(p.revents & POLLIN)) break; ssize_t r = ::read(peer[fd], o + n, cap - n); if (r <= 0) break; n += (int)r; }
	return n;
}
void vp_sock_fragment(int, int) {}
}
