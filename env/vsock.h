/* Harness-side API of the connected-stream-socket model (env/vsock.c symbolically, env/vsock_native.cpp natively) */
#ifndef VSOCK_H
#define VSOCK_H
#ifdef __cplusplus
extern "C" {
#endif
int  vp_sock_new(void);                               /* fd of a connected stream socket */
void vp_sock_feed(int fd, const void* data, int n);    /* bytes the peer sends (may be called repeatedly) */
void vp_sock_peer_close(int fd);                       /* the peer closes after the bytes fed so far */
int  vp_sock_sent(int fd, void* out, int cap);         /* copies what the code under test has written; returns the count */
void vp_sock_fragment(int fd, int on);                 /* the next `on` read() calls return a symbolic number of bytes in 1..available */
void vp_sock_set_server(void (*fn)(int server_fd));       /* connect()ed sockets talk to fn, run when the client blocks */
int  vp_sock_peer_of(int fd);
void vp_sock_on_idle(int fd, void (*fn)(int fd));         /* fn plays the peer: called when the code looks for input and none is pending */
#ifdef __cplusplus
}
#endif
#endif
