/* Harness-side API of the listening-socket model used for SocketServer (env/vsrv.c symbolically; env/vsrv_native.cpp
   natively, where the same calls open real loopback TCP connections) */
#ifndef VSRV_H
#define VSRV_H
#ifdef __cplusplus
extern "C" {
#endif
int  vp_srv_port(void);                                  /* TCP port the server under test should bind on 127.0.0.1 */
int  vp_cli_connect(const unsigned char* data, int n);   /* a client connects and sends n bytes; returns a client handle (or -1) */
int  vp_cli_recv(int h, unsigned char* out, int cap);    /* everything the server has sent on that connection (until it closed) */
void vp_cli_close(int h);                                /* the client closes its end */
int  vp_srv_accepted(int h);                             /* 1 when the server has accepted the connection (model only; natively 1) */
void vp_cli_send(int h, const unsigned char* data, int n);  /* the client sends more bytes */
int  vp_srv_closed_by_server(int h);                     /* 1 when the server side of the connection has been closed (model only; natively 1 at EOF) */
#ifdef __cplusplus
}
#endif
#endif
