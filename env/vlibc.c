/* Minimal libc pieces executed symbolically as IR (compiled with -fno-builtin so the loops stay loops).
   C-locale semantics.  Trusted environment; differentially tested against glibc by setup. */
#include <stdarg.h>
#include <stddef.h>
typedef unsigned long long ull;

int isspace(int c) { return c == ' ' || (c >= 9 && c <= 13); }
int isdigit(int c) { return c >= '0' && c <= '9'; }
int isalpha(int c) { return (c >= 'a' && c <= 'z') || (c >= 'A' && c <= 'Z'); }
int isalnum(int c) { return isalpha(c) || isdigit(c); }
int isupper(int c) { return c >= 'A' && c <= 'Z'; }
int islower(int c) { return c >= 'a' && c <= 'z'; }
int isxdigit(int c) { return isdigit(c) || (c >= 'a' && c <= 'f') || (c >= 'A' && c <= 'F'); }
int toupper(int c) { return islower(c) ? c - 32 : c; }
int tolower(int c) { return isupper(c) ? c + 32 : c; }

char* strcpy(char* d, const char* s) { char* r = d; while ((*d++ = *s++)) {} return r; }
char* strncpy(char* d, const char* s, size_t n) { size_t i = 0; for (; i < n && s[i]; i++) d[i] = s[i]; for (; i < n; i++) d[i] = 0; return d; }
char* strcat(char* d, const char* s) { char* r = d; while (*d) d++; while ((*d++ = *s++)) {} return r; }
char* strstr(const char* h, const char* n)
{
	if (!*n) return (char*)h;
	for (; *h; h++) {
		const char *a = h, *b = n;
		while (*a && *b && *a == *b) { a++; b++; }
		if (!*b) return (char*)h;
	}
	return 0;
}

static int digitval(int c) { if (c >= '0' && c <= '9') return c - '0'; if (c >= 'a' && c <= 'z') return c - 'a' + 10; if (c >= 'A' && c <= 'Z') return c - 'A' + 10; return 99; }

ull strtoull(const char* s, char** end, int base)
{
	const char* p = s; int neg = 0, any = 0; ull v = 0;
	while (isspace((unsigned char)*p)) p++;
	if (*p == '+' || *p == '-') { neg = *p == '-'; p++; }
	if ((base == 0 || base == 16) && p[0] == '0' && (p[1] == 'x' || p[1] == 'X') && digitval((unsigned char)p[2]) < 16) { p += 2; base = 16; }
	else if (base == 0) base = p[0] == '0' ? 8 : 10;
	int ovf = 0;
	for (;; p++) {
		int d = digitval((unsigned char)*p);
		if (d >= base) break;
		ull nv = v * (ull)base + (ull)d;
		if (v > (~0ULL - (ull)d) / (ull)base) ovf = 1;
		v = nv; any = 1;
	}
	if (end) *end = (char*)(any ? p : s);
	if (ovf) return ~0ULL;
	return neg ? (ull)(-(long long)v) : v;
}
unsigned long strtoul(const char* s, char** end, int base) { return strtoull(s, end, base); }
long long strtoll(const char* s, char** end, int base)
{
	const char* p = s; int neg = 0, any = 0; ull v = 0; int ovf = 0;
	while (isspace((unsigned char)*p)) p++;
	if (*p == '+' || *p == '-') { neg = *p == '-'; p++; }
	if ((base == 0 || base == 16) && p[0] == '0' && (p[1] == 'x' || p[1] == 'X') && digitval((unsigned char)p[2]) < 16) { p += 2; base = 16; }
	else if (base == 0) base = p[0] == '0' ? 8 : 10;
	for (;; p++) {
		int d = digitval((unsigned char)*p);
		if (d >= base) break;
		if (v > (0x8000000000000000ULL - (ull)d) / (ull)base) ovf = 1;
		v = v * (ull)base + (ull)d; any = 1;
	}
	if (end) *end = (char*)(any ? p : s);
	if (ovf || (!neg && v > 0x7fffffffffffffffULL)) return neg ? (long long)0x8000000000000000ULL : 0x7fffffffffffffffLL;
	return neg ? -(long long)v : (long long)v;
}
long strtol(const char* s, char** end, int base) { return strtoll(s, end, base); }
int atoi(const char* s) { return (int)strtoll(s, 0, 10); }
long atol(const char* s) { return strtoll(s, 0, 10); }
long long atoll(const char* s) { return strtoll(s, 0, 10); }

/* ---- mini printf: %d %i %u %x %X %o %c %s %p %% with flags - 0 + space #, width, precision, l ll h hh z;
   %g %f %e are delegated to vp_fmt_double (contract stub / engine builtin). */
extern int vp_fmt_double(char* out, int cap, double x, int conv, int prec, int flags);

struct outbuf { char* p; size_t cap; size_t n; };
static void put(struct outbuf* o, char c) { if (o->n + 1 < o->cap) o->p[o->n] = c; o->n++; }

int vsnprintf(char* buf, size_t cap, const char* fmt, va_list ap)
{
	struct outbuf o; o.p = buf; o.cap = cap; o.n = 0;
	for (; *fmt; fmt++) {
		if (*fmt != '%') { put(&o, *fmt); continue; }
		fmt++;
		int left = 0, zero = 0, plus = 0, space = 0, alt = 0;
		for (;; fmt++) {
			if (*fmt == '-') left = 1; else if (*fmt == '0') zero = 1; else if (*fmt == '+') plus = 1;
			else if (*fmt == ' ') space = 1; else if (*fmt == '#') alt = 1; else break;
		}
		int width = 0, prec = -1;
		if (*fmt == '*') { width = va_arg(ap, int); if (width < 0) { left = 1; width = -width; } fmt++; }
		else while (isdigit((unsigned char)*fmt)) width = width * 10 + (*fmt++ - '0');
		if (*fmt == '.') { fmt++; prec = 0; if (*fmt == '*') { prec = va_arg(ap, int); fmt++; } else while (isdigit((unsigned char)*fmt)) prec = prec * 10 + (*fmt++ - '0'); }
		int lng = 0;
		for (;; fmt++) { if (*fmt == 'l') lng++; else if (*fmt == 'h') lng--; else if (*fmt == 'z' || *fmt == 'j' || *fmt == 't') lng = 2; else break; }
		char c = *fmt;
		char tmp[72]; int tn = 0; const char* body = tmp; int bl = 0; char sign = 0; const char* prefix = ""; int isnum = 0;
		if (c == 0) break;
		if (c == '%') { put(&o, '%'); continue; }
		if (c == 'c') { tmp[0] = (char)va_arg(ap, int); bl = 1; }
		else if (c == 's') {
			const char* s = va_arg(ap, const char*); if (!s) s = "(null)";
			body = s; while (s[bl] && (prec < 0 || bl < prec)) bl++;
		}
		else if (c == 'd' || c == 'i' || c == 'u' || c == 'x' || c == 'X' || c == 'o' || c == 'p') {
			ull v; int base = 10; isnum = 1;
			if (c == 'p') { v = (ull)(size_t)va_arg(ap, void*); base = 16; prefix = "0x"; }
			else if (c == 'd' || c == 'i') {
				long long sv = lng >= 2 ? va_arg(ap, long long) : lng == 1 ? va_arg(ap, long) : va_arg(ap, int);
				if (lng == -1) sv = (short)sv; else if (lng <= -2) sv = (signed char)sv;
				if (sv < 0) { sign = '-'; v = (ull)0 - (ull)sv; } else { v = (ull)sv; if (plus) sign = '+'; else if (space) sign = ' '; }
			} else {
				v = lng >= 2 ? va_arg(ap, ull) : lng == 1 ? va_arg(ap, unsigned long) : va_arg(ap, unsigned int);
				if (lng == -1) v = (unsigned short)v; else if (lng <= -2) v = (unsigned char)v;
				base = c == 'o' ? 8 : c == 'u' ? 10 : 16;
				if (alt && v && base == 16) prefix = c == 'x' ? "0x" : "0X";
			}
			const char* digs = c == 'X' ? "0123456789ABCDEF" : "0123456789abcdef";
			char rev[72]; int rn = 0;
			while (v) { rev[rn++] = digs[v % (ull)base]; v /= (ull)base; }
			int mind = prec < 0 ? 1 : prec;
			while (rn < mind && rn < 64) rev[rn++] = '0';
			if (alt && base == 8 && (rn == 0 || rev[rn - 1] != '0')) rev[rn++] = '0';
			while (rn) tmp[tn++] = rev[--rn];
			bl = tn;
			if (prec >= 0) zero = 0;
		}
		else if (c == 'g' || c == 'G' || c == 'f' || c == 'F' || c == 'e' || c == 'E') {
			double x = va_arg(ap, double);
			bl = vp_fmt_double(tmp, 64, x, c, prec, (plus ? 1 : 0) | (space ? 2 : 0) | (alt ? 4 : 0));
			if (bl > 0 && (tmp[0] == '-' || tmp[0] == '+' || tmp[0] == ' ')) { sign = tmp[0]; body = tmp + 1; bl--; }
			isnum = 1;
		}
		else { put(&o, '%'); put(&o, c); continue; }
		int pl = 0; while (prefix[pl]) pl++;
		int total = bl + pl + (sign ? 1 : 0);
		int pad = width > total ? width - total : 0;
		if (!left && !(zero && isnum)) while (pad-- > 0) put(&o, ' ');
		if (sign) put(&o, sign);
		for (int i = 0; i < pl; i++) put(&o, prefix[i]);
		if (!left && zero && isnum) while (pad-- > 0) put(&o, '0');
		for (int i = 0; i < bl; i++) put(&o, body[i]);
		if (left) while (pad-- > 0) put(&o, ' ');
	}
	if (cap) o.p[o.n < cap ? o.n : cap - 1] = 0;
	return (int)o.n;
}
int snprintf(char* buf, size_t cap, const char* fmt, ...) { va_list ap; va_start(ap, fmt); int r = vsnprintf(buf, cap, fmt, ap); va_end(ap); return r; }
int sprintf(char* buf, const char* fmt, ...) { va_list ap; va_start(ap, fmt); int r = vsnprintf(buf, (size_t)1 << 30, fmt, ap); va_end(ap); return r; }
int vsprintf(char* buf, const char* fmt, va_list ap) { return vsnprintf(buf, (size_t)1 << 30, fmt, ap); }
size_t wcslen(const int* s) { size_t n = 0; while (s[n]) n++; return n; }
/* time zone model: UTC (localtime == gmtime) */
struct vtm { int tm_sec, tm_min, tm_hour, tm_mday, tm_mon, tm_year, tm_wday, tm_yday, tm_isdst; long tm_gmtoff; const char* tm_zone; };
static struct vtm vtm_buf;
int vp_is_symbolic_l(long x); int vp_range(int lo, int hi);
struct vtm* gmtime(const long* tp)
{
	long t = *tp;
	if (vp_is_symbolic_l(t)) {
		/* symbolic instant: "some valid broken-down time" (over-approximation: the calendar computation below on a symbolic
		   64-bit value is beyond the solver); callers that need the exact fields pass concrete instants */
		vtm_buf.tm_hour = vp_range(0, 23); vtm_buf.tm_min = vp_range(0, 59); vtm_buf.tm_sec = vp_range(0, 59); vtm_buf.tm_wday = vp_range(0, 6);
		vtm_buf.tm_mday = vp_range(1, 31); vtm_buf.tm_mon = vp_range(0, 11); vtm_buf.tm_year = vp_range(-1899, 8099); vtm_buf.tm_yday = vp_range(0, 365);
		vtm_buf.tm_isdst = 0; vtm_buf.tm_gmtoff = 0; vtm_buf.tm_zone = "UTC";
		return &vtm_buf;
	}
	long days = t / 86400; long rem = t % 86400; if (rem < 0) { rem += 86400; days--; }
	vtm_buf.tm_hour = (int)(rem / 3600); vtm_buf.tm_min = (int)((rem / 60) % 60); vtm_buf.tm_sec = (int)(rem % 60);
	vtm_buf.tm_wday = (int)((days % 7 + 11) % 7);
	long z = days + 719468; long era = (z >= 0 ? z : z - 146096) / 146097; long doe = z - era * 146097;
	long yoe = (doe - doe / 1460 + doe / 36524 - doe / 146096) / 365; long y = yoe + era * 400; long doy = doe - (365 * yoe + yoe / 4 - yoe / 100);
	long mp = (5 * doy + 2) / 153; long d = doy - (153 * mp + 2) / 5 + 1; long m = mp + (mp < 10 ? 3 : -9); if (m <= 2) y++;
	vtm_buf.tm_mday = (int)d; vtm_buf.tm_mon = (int)m - 1; vtm_buf.tm_year = (int)(y - 1900);
	static const int cum[12] = { 0, 31, 59, 90, 120, 151, 181, 212, 243, 273, 304, 334 };
	int leap = (y % 4 == 0 && (y % 100 != 0 || y % 400 == 0));
	vtm_buf.tm_yday = cum[m - 1] + (int)d - 1 + (leap && m > 2 ? 1 : 0);
	vtm_buf.tm_isdst = 0; vtm_buf.tm_gmtoff = 0; vtm_buf.tm_zone = "UTC";
	return &vtm_buf;
}
struct vtm* localtime(const long* tp) { return gmtime(tp); }
