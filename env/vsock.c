/* In-memory model of connected stream sockets at the system-call level (read/recv/send/select/ioctl/close), executed
   symbolically as IR.  The real Socket_::read/write/readLine/waitInput/available loops run on top of it.
   Contract: read returns min(size, available) bytes - or, in fragment mode, any count in 1..that - and 0 once the peer
   has closed and everything was consumed; when nothing is available and the peer has not closed, a blocking read
   returns 0 as well (the harness feeds everything up front; "peer silent forever" = connection drop after a timeout).
   select reports a socket readable when data is available or the peer has closed. */
#include <stddef.h>
#include "vp.h"
#ifdef VP_NATIVE
/* native replay: the same model interposes on the libc entry points; descriptors that are not model sockets go to the kernel */
long syscall(long, ...);
#define PASS(nr, ...) return syscall(nr, __VA_ARGS__)
#else
#define PASS(nr, ...) return -1
#endif
#define NS 3
#define CAP 36000
#define BIGCAP 70400
struct vsock { int used, closed_by_peer, fragment, open; unsigned char* in; int in_n, in_pos, in_cap; unsigned char* out; int out_n, out_cap; };
static struct vsock vs[NS];
/* separate objects per socket and direction (the first socket can carry frames beyond 64 KiB) */
static unsigned char in0[BIGCAP], out0[BIGCAP], in1[CAP], out1[CAP], in2[CAP], out2[CAP];
#define FD0 100
static void vpump(int fd);
static void (*vidle[3])(int);
static struct vsock* S(int fd) { int i = fd - FD0; if (i < 0 || i >= NS || !vs[i].used) return 0; return &vs[i]; }
int vp_sock_new(void) { for (int i = 0; i < NS; i++) if (!vs[i].used) { vs[i].in = i == 0 ? in0 : i == 1 ? in1 : in2; vs[i].out = i == 0 ? out0 : i == 1 ? out1 : out2; vs[i].in_cap = vs[i].out_cap = i == 0 ? BIGCAP : CAP; vs[i].used = 1; vs[i].open = 1; vs[i].closed_by_peer = 0; vs[i].fragment = 0; vs[i].in_n = vs[i].in_pos = vs[i].out_n = 0; vidle[i] = 0; return FD0 + i; } return -1; }
void vp_sock_feed(int fd, const void* data, int n) { struct vsock* s = S(fd); const unsigned char* d = (const unsigned char*)data; for (int i = 0; i < n && s->in_n < s->in_cap; i++) s->in[s->in_n++] = d[i]; }
void vp_sock_peer_close(int fd) { S(fd)->closed_by_peer = 1; }
int vp_sock_sent(int fd, void* out, int cap) { struct vsock* s = S(fd); unsigned char* o = (unsigned char*)out; int n = s->out_n < cap ? s->out_n : cap; for (int i = 0; i < n; i++) o[i] = s->out[i]; return s->out_n; }
void vp_sock_fragment(int fd, int on) { S(fd)->fragment = on; }

long read(int fd, void* buf, size_t size)
{
	struct vsock* s = S(fd);
	if (!s) { PASS(0, fd, buf, size); }
	if (!s->open) return -1;
	vpump(fd);
	int avail = s->in_n - s->in_pos;
	if (avail <= 0 || size == 0) return 0;
	int n = (int)size < avail ? (int)size : avail;
	if (s->fragment > 0 && n > 1) { n = vp_concretize(vp_range(1, n)); s->fragment--; }    /* 'fragment' = number of reads that may return short */
	unsigned char* o = (unsigned char*)buf;
	for (int i = 0; i < n; i++) o[i] = s->in[s->in_pos++];
	return n;
}
long recv(int fd, void* buf, size_t size, int flags) { (void)flags; return read(fd, buf, size); }
long send(int fd, const void* buf, size_t size, int flags)
{
	struct vsock* s = S(fd);
	if (!s) { PASS(44, fd, buf, size, flags, 0, 0); }
	if (!s->open) return -1;
	const unsigned char* d = (const unsigned char*)buf;
	size_t n = 0;
	while (n < size && s->out_n < s->out_cap) s->out[s->out_n++] = d[n++];
	return (long)size;
}
long write(int fd, const void* buf, size_t size) { if (!S(fd)) { PASS(1, fd, buf, size); } return send(fd, buf, size, 0); }
int close(int fd) { struct vsock* s = S(fd); if (!s) { PASS(3, fd); } s->open = 0; return 0; }
int shutdown(int fd, int how) { (void)fd; (void)how; return 0; }
int ioctl(int fd, unsigned long req, ...)
{
	__builtin_va_list ap; __builtin_va_start(ap, req); long* p = __builtin_va_arg(ap, long*); __builtin_va_end(ap);
	struct vsock* s = S(fd);
	if (!s) { PASS(16, fd, req, p); }
	if (!s->open) return -1;
	vpump(fd);
	*p = s->in_n - s->in_pos;
	return 0;
}
/* fd_set = array of unsigned long bits */
int select(int nfds, void* rset, void* wset, void* eset, void* timeout)
{
	unsigned long* r = (unsigned long*)rset;
	int ready = 0;
	if (!r || nfds <= FD0) { PASS(23, nfds, rset, wset, eset, timeout); }
	for (int i = 0; i < NS; i++) {
		int fd = FD0 + i; unsigned long bit = 1UL << (fd % 64); unsigned long* w = &r[fd / 64];
		if (!(*w & bit)) continue;
		if (vs[i].used && vs[i].open) vpump(fd);
		if (vs[i].used && vs[i].open && (vs[i].in_n - vs[i].in_pos > 0 || vs[i].closed_by_peer)) ready++;
		else *w &= ~bit;
	}
	return ready;
}
int setsockopt(int fd, int level, int opt, const void* v, unsigned len) { (void)fd; (void)level; (void)opt; (void)v; (void)len; return 0; }
int getsockopt(int fd, int level, int opt, void* v, unsigned* len) { (void)fd; (void)level; (void)opt; (void)v; (void)len; return 0; }
int fcntl(int fd, int cmd, ...) { (void)fd; (void)cmd; return 0; }
/* peer/local address of a model socket: IPv4 127.0.0.1:80 (struct sockaddr_in: family 2, port, addr) */
static int vaddr(int fd, void* addr, unsigned* len, int port)
{
	if (!S(fd)) return -1;
	unsigned char* a = (unsigned char*)addr;
	unsigned n = *len < 16 ? *len : 16;
	for (unsigned i = 0; i < n; i++) a[i] = 0;
	if (n >= 8) { a[0] = 2; a[1] = 0; a[2] = (unsigned char)(port >> 8); a[3] = (unsigned char)port; a[4] = 127; a[7] = 1; }
	*len = 16;
	return 0;
}
int getpeername(int fd, void* addr, unsigned* len) { if (!S(fd)) { PASS(52, fd, addr, len); } return vaddr(fd, addr, len, 40000); }
int getsockname(int fd, void* addr, unsigned* len) { if (!S(fd)) { PASS(51, fd, addr, len); } return vaddr(fd, addr, len, 80); }

/* ---- client side: socket() / connect() / getaddrinfo(), and a synchronous "server runs when the client blocks" hook.
   vp_sock_set_server(fn): every connect()ed socket gets a paired server-side socket; when the client reads or polls with
   nothing to read, the bytes it wrote so far are delivered to the pair, fn(server_fd) runs to completion (the real
   server code on the real request bytes), and whatever it wrote is delivered back to the client. */
static void (*vserver)(int);
static int vpair[NS]; static int vserved[NS];
void vp_sock_set_server(void (*fn)(int)) { vserver = fn; for (int i = 0; i < NS; i++) { vpair[i] = -1; vserved[i] = 0; } }
void vp_sock_on_idle(int fd, void (*fn)(int)) { int i = fd - FD0; if (i >= 0 && i < NS) vidle[i] = fn; }
static void vpump(int fd)
{
	int i = fd - FD0;
	/* an idle callback plays the peer that reacts to what it has received: it runs whenever the code under test looks
	   for input, none is pending and the peer has not closed; it may feed more bytes or close */
	if (i >= 0 && i < NS && vidle[i] && vs[i].used && vs[i].in_n - vs[i].in_pos == 0 && !vs[i].closed_by_peer) { void (*fn)(int) = vidle[i]; fn(fd); }
	if (!vserver || i < 0 || i >= NS || vpair[i] < 0 || vserved[i]) return;
	struct vsock* c = &vs[i]; struct vsock* sv = S(vpair[i]);
	if (c->in_n - c->in_pos > 0 || c->out_n == 0) return;
	vserved[i] = 1;
	for (int k = 0; k < c->out_n && sv->in_n < sv->in_cap; k++) sv->in[sv->in_n++] = c->out[k];
	sv->closed_by_peer = 0;
	vserver(vpair[i]);
	for (int k = 0; k < sv->out_n && c->in_n < c->in_cap; k++) c->in[c->in_n++] = sv->out[k];
	c->closed_by_peer = 1;          /* the server is done with this connection after answering */
}
int socket(int dom, int type, int proto) { (void)dom; (void)type; (void)proto; return vp_sock_new(); }
int connect(int fd, const void* addr, unsigned len)
{
	(void)addr; (void)len;
	struct vsock* s = S(fd); if (!s) return -1;
	if (vserver) { int p = vp_sock_new(); if (p < 0) return -1; vpair[fd - FD0] = p; vserved[fd - FD0] = 0; }
	return 0;
}
int vp_sock_peer_of(int fd) { int i = fd - FD0; return (i >= 0 && i < NS) ? vpair[i] : -1; }
/* struct addrinfo (x86-64): flags@0 family@4 socktype@8 protocol@12 addrlen@16 addr@24 canonname@32 next@40 */
static unsigned char vai[48]; static unsigned char vsa[16];
int getaddrinfo(const char* host, const char* service, const void* hints, void** res)
{
	(void)service; (void)hints;
	if (!host || !host[0]) return -2;
	for (int i = 0; i < 48; i++) vai[i] = 0;
	for (int i = 0; i < 16; i++) vsa[i] = 0;
	vsa[0] = 2; vsa[4] = 127; vsa[7] = 1;
	*(int*)(vai + 4) = 2; *(int*)(vai + 8) = 1; *(unsigned*)(vai + 16) = 16; *(unsigned char**)(vai + 24) = vsa;
	*res = vai;
	return 0;
}
void freeaddrinfo(void* p) { (void)p; }
