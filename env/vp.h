/* Harness primitives shared by the symbolic engine (E-SYM: these are engine builtins) and the
   native replay build (vp_native.cpp: values come from a recorded counterexample / model). */
#ifndef VP_H
#define VP_H
#ifdef __cplusplus
extern "C" {
#endif
unsigned char      nondet_u8(void);
unsigned short     nondet_u16(void);
unsigned int       nondet_u32(void);
unsigned long long nondet_u64(void);
int                nondet_bool(void);
double             nondet_f64(void);
int  vp_range(int lo, int hi);          /* fresh symbolic int in [lo,hi] */
void vp_assume(int c);
void vp_assert(int c, const char* msg);
void vp_reach(int id);
void vp_note(long long x);              /* observable, compared engine vs native */
int  vp_param(int k);                   /* concrete instance parameter chosen by the driver */
int  vp_concretize(int x);              /* forks: returns a concrete value on every path */
int  vp_symbolic_run(void);             /* 1 under E-SYM, 0 natively */
void vp_sched_fair(int on);             /* thread model: voluntary yields (sleep, select time-outs) hand over round-robin instead of branching */
void vp_sched_budget(int k);            /* thread model: number of preemptive context switches explored (no-op natively) */
#ifdef __cplusplus
}
#endif
#endif
