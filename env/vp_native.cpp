// Native implementation of the harness primitives: replays a recorded input vector.
// File format (VP_REPLAY): first line "params p0 p1 ...", then one unsigned decimal per nondet call.
// Exit codes: 0 ok, 77 assumption not met / inputs exhausted, 99 assertion failed (sanitizers abort on their own).
#include <stdio.h>
#include <stdlib.h>
#include <string.h>
#include <vector>
#include <unistd.h>
#include <time.h>
#include "vp.h"
static std::vector<unsigned long long> g_in; static std::vector<int> g_par; static size_t g_pos = 0; static bool g_loaded = false;
static FILE* g_notes = 0;
static void load() {
	if (g_loaded) return; g_loaded = true;
	const char* fn = getenv("VP_REPLAY");
	if (getenv("VP_NOTES")) g_notes = fopen(getenv("VP_NOTES"), "w");
	if (!fn) return;
	FILE* f = fopen(fn, "r"); if (!f) { fprintf(stderr, "vp: cannot open %s\n", fn); exit(2); }
	char line[4096];
	if (fgets(line, sizeof line, f)) { char* p = strtok(line, " \n"); while ((p = strtok(0, " \n"))) g_par.push_back(atoi(p)); }
	unsigned long long v; while (fscanf(f, "%llu", &v) == 1) g_in.push_back(v);
	fclose(f);
}
static unsigned long long next() { load(); if (g_pos >= g_in.size()) { g_pos++; return 0; } return g_in[g_pos++]; }
extern "C" {
unsigned char nondet_u8(void) { return (unsigned char)next(); }
unsigned short nondet_u16(void) { return (unsigned short)next(); }
unsigned int nondet_u32(void) { return (unsigned int)next(); }
unsigned long long nondet_u64(void) { return next(); }
int nondet_bool(void) { return next() != 0; }
double nondet_f64(void) { unsigned long long v = next(); double d; memcpy(&d, &v, 8); return d; }
int vp_range(int lo, int hi) { int v = (int)(unsigned int)next(); if (v < lo || v > hi) { if (g_notes) fclose(g_notes); exit(77); } return v; }
void vp_assume(int c) { if (!c) { if (g_notes) fclose(g_notes); exit(77); } }
void vp_assert(int c, const char* msg) { if (!c) { fprintf(stderr, "VP_ASSERT_FAILED: %s\n", msg); if (g_notes) fclose(g_notes); fflush(0); _exit(99); } }
void vp_reach(int) {}
void vp_note(long long x) { load(); if (g_notes) fprintf(g_notes, "%llu\n", (unsigned long long)x); }
int vp_param(int k) { load(); return k < (int)g_par.size() ? g_par[k] : 0; }
int vp_concretize(int x) { return x; }
int vp_symbolic_run(void) { return 0; }
void vp_sched_budget(int) {}
void vp_sched_fair(int) {}
// guarded schedule hooks of the library (-DASL_VERIF): VP_DELAY="name=milliseconds,..." holds a thread at a named point
void asl_verif_sched_point(const char* name)
{
	const char* d = getenv("VP_DELAY");
	if (!d) return;
	size_t n = strlen(name);
	for (const char* p = d; p && *p; ) {
		if (!strncmp(p, name, n) && p[n] == '=') {
			// busy wait: sleeping would be a cancellation point, which the code being held does not have
			struct timespec t0, t; clock_gettime(CLOCK_MONOTONIC, &t0);
			long ms = atoi(p + n + 1);
			do clock_gettime(CLOCK_MONOTONIC, &t); while ((t.tv_sec - t0.tv_sec) * 1000 + (t.tv_nsec - t0.tv_nsec) / 1000000 < ms);
			return;
		}
		p = strchr(p, ','); if (p) p++;
	}
}
}
#include <dlfcn.h>
int main(int argc, char** argv) {
	load();
	if (argc < 2) { fprintf(stderr, "usage: %s <entry>\n", argv[0]); return 2; }
	void (*f)(void) = (void (*)(void))dlsym(RTLD_DEFAULT, argv[1]);
	if (!f) { fprintf(stderr, "vp: no entry %s\n", argv[1]); return 2; }
	f();
	if (g_notes) fclose(g_notes);
	return 0;
}
// native counterpart of the engine builtin used by env/vlibc.c (only linked when vlibc.c is, i.e. never natively)
