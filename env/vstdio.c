/* In-memory stdio / stat model executed symbolically as IR (compiled -fno-builtin).  Up to 4 files of up to 4096 bytes
   in static storage (so file contents are not heap leaks), up to 6 open streams.  Semantics follow ISO C / POSIX for
   the calls asl makes: fopen (r w a r+ w+ a+, b/t ignored), fclose, fread, fwrite, fgets, getc, fputs, fseek, ftell, feof,
   fflush, setvbuf, stat (size, regular-file mode, fixed non-zero times), unlink/remove, rename.  Trusted environment. */
#include <stddef.h>
#define NFILES 4
#define FCAP 4096
#define NSTREAMS 6
#define BIGFCAP 40000
struct vfile { char name[40]; unsigned char* data; long cap; long size; int used; };
/* separate objects per file; the first slot can hold a file that spans several 16000-byte blocks */
static unsigned char vdata0[BIGFCAP], vdata1[FCAP], vdata2[FCAP], vdata3[FCAP];
struct vstream { int used; int file; long pos; int readable, writable, append, eof, err; };
static struct vfile vfs[NFILES];
static struct vstream vst[NSTREAMS];
typedef struct vstream FILE;
FILE* stdout = 0; FILE* stderr = 0; FILE* stdin = 0;

static int vstreq(const char* a, const char* b) { while (*a && *a == *b) { a++; b++; } return *a == *b; }
/* names are compared after the normalisation a file system applies: "x/../" and "./" components and doubled slashes vanish */
static void vnorm(const char* name, char* out)
{
	int n = 0;
	for (int i = 0; name[i] && n < 79; ) {
		int j = i; while (name[j] && name[j] != '/') j++;
		int len = j - i;
		if (len == 2 && name[i] == '.' && name[i + 1] == '.') { if (n > 0) { n--; while (n > 0 && out[n - 1] != '/') n--; } }
		else if (len == 0 || (len == 1 && name[i] == '.')) { }
		else { for (int k = i; k < j && n < 79; k++) out[n++] = name[k]; if (name[j] == '/' && n < 79) out[n++] = '/'; }
		i = name[j] ? j + 1 : j;
	}
	if (n > 0 && out[n - 1] == '/') n--;
	out[n] = 0;
}
static int vfind(const char* name) { char a[80], b[80]; vnorm(name, a); for (int i = 0; i < NFILES; i++) if (vfs[i].used) { vnorm(vfs[i].name, b); if (vstreq(a, b)) return i; } return -1; }
static int vcreate(const char* name)
{
	for (int i = 0; i < NFILES; i++) if (!vfs[i].used) {
		int k = 0; while (name[k] && k < 39) { vfs[i].name[k] = name[k]; k++; }
		vfs[i].name[k] = 0; vfs[i].used = 1; vfs[i].size = 0;
		vfs[i].data = i == 0 ? vdata0 : i == 1 ? vdata1 : i == 2 ? vdata2 : vdata3; vfs[i].cap = i == 0 ? BIGFCAP : FCAP;
		return i;
	}
	return -1;
}
FILE* fopen(const char* path, const char* mode)
{
	int rd = 0, wr = 0, app = 0, trunc = 0, create = 0;
	if (mode[0] == 'r') rd = 1; else if (mode[0] == 'w') { wr = 1; trunc = 1; create = 1; } else if (mode[0] == 'a') { wr = 1; app = 1; create = 1; } else return 0;
	for (const char* m = mode + 1; *m; m++) if (*m == '+') { rd = 1; wr = 1; }
	if (path[0] == 0) return 0;
	int f = vfind(path);
	if (f < 0) { if (!create) return 0; f = vcreate(path); if (f < 0) return 0; }
	if (trunc) vfs[f].size = 0;
	for (int i = 0; i < NSTREAMS; i++) if (!vst[i].used) {
		vst[i].used = 1; vst[i].file = f; vst[i].pos = 0; vst[i].readable = rd; vst[i].writable = wr; vst[i].append = app; vst[i].eof = 0; vst[i].err = 0;
		return &vst[i];
	}
	return 0;
}
int fclose(FILE* s) { if (!s) return -1; s->used = 0; return 0; }
size_t fread(void* p, size_t sz, size_t n, FILE* s)
{
	size_t want = sz * n, got = 0; unsigned char* d = (unsigned char*)p;
	if (!s->readable || sz == 0) return 0;
	struct vfile* f = &vfs[s->file];
	while (got < want && s->pos < f->size) d[got++] = f->data[s->pos++];
	if (got < want) s->eof = 1;
	return got / sz;
}
size_t fwrite(const void* p, size_t sz, size_t n, FILE* s)
{
	size_t want = sz * n, put = 0; const unsigned char* d = (const unsigned char*)p;
	if (!s || !s->writable || sz == 0) return 0;
	struct vfile* f = &vfs[s->file];
	if (s->append) s->pos = f->size;
	while (put < want && s->pos < f->cap) { f->data[s->pos++] = d[put++]; if (s->pos > f->size) f->size = s->pos; }
	return put / sz;
}
int getc(FILE* s) { struct vfile* f = &vfs[s->file]; if (!s->readable || s->pos >= f->size) { s->eof = 1; return -1; } return f->data[s->pos++]; }
int fgetc(FILE* s) { return getc(s); }
char* fgets(char* buf, int n, FILE* s)
{
	int k = 0;
	if (n <= 0) return 0;
	while (k < n - 1) { int c = getc(s); if (c < 0) break; buf[k++] = (char)c; if (c == '\n') break; }
	if (k == 0) return 0;
	buf[k] = 0; return buf;
}
int fputs(const char* t, FILE* s) { size_t n = 0; while (t[n]) n++; return fwrite(t, 1, n, s) == n ? 0 : -1; }
int fputc(int c, FILE* s) { unsigned char ch = (unsigned char)c; return fwrite(&ch, 1, 1, s) == 1 ? ch : -1; }
int putc(int c, FILE* s) { return fputc(c, s); }
int fseek(FILE* s, long off, int whence)
{
	long base = whence == 0 ? 0 : whence == 1 ? s->pos : vfs[s->file].size;
	if (base + off < 0) return -1;
	s->pos = base + off; s->eof = 0; return 0;
}
long ftell(FILE* s) { return s->pos; }
int feof(FILE* s) { return s->eof; }
int ferror(FILE* s) { return s->err; }
int fflush(FILE* s) { (void)s; return 0; }
int setvbuf(FILE* s, char* b, int m, size_t n) { (void)s; (void)b; (void)m; (void)n; return 0; }
void rewind(FILE* s) { s->pos = 0; s->eof = 0; }
int unlink(const char* path) { int f = vfind(path); if (f < 0) return -1; vfs[f].used = 0; return 0; }
int remove(const char* path) { return unlink(path); }
int rename(const char* a, const char* b)
{
	int f = vfind(a); if (f < 0) return -1;
	int g = vfind(b); if (g >= 0 && g != f) vfs[g].used = 0;
	int k = 0; while (b[k] && k < 39) { vfs[f].name[k] = b[k]; k++; } vfs[f].name[k] = 0; return 0;
}
/* struct stat, glibc x86-64 layout: st_mode @24 (4), st_size @48 (8), st_mtim @88, st_ctim @104, total 144 bytes */
int stat(const char* path, void* st)
{
	int f = vfind(path); if (f < 0) return -1;
	unsigned char* p = (unsigned char*)st;
	for (int i = 0; i < 144; i++) p[i] = 0;
	*(unsigned int*)(p + 24) = 0100644;
	*(long*)(p + 48) = vfs[f].size;
	*(long*)(p + 72) = 1700000000; *(long*)(p + 88) = 1700000000; *(long*)(p + 104) = 1700000000;   /* atime, mtime, ctime */
	return 0;
}
int __xstat(int v, const char* path, void* st) { (void)v; return stat(path, st); }
int utime(const char* p, const void* t) { (void)t; return vfind(p) < 0 ? -1 : 0; }
/* harness access to the model (declared in the harness when running symbolically) */
long vp_file_size(const char* path) { int f = vfind(path); return f < 0 ? -1 : vfs[f].size; }
int vp_file_byte(const char* path, long i) { int f = vfind(path); return (f < 0 || i >= vfs[f].size) ? -1 : vfs[f].data[i]; }
