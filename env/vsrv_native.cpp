// native counterpart of env/vsrv.c: the harness API opens real loopback TCP connections to the server under test
#include <sys/socket.h>
#include <netinet/in.h>
#include <arpa/inet.h>
#include <unistd.h>
#include <poll.h>
#include <string.h>
#include "vsrv.h"
static int g_port, g_fd[64], g_n;
extern "C" int vp_srv_port(void)
{
	if (!g_port) {      // find a free port by binding port 0 once
		int s = socket(AF_INET, SOCK_STREAM, 0); sockaddr_in a; memset(&a, 0, sizeof a); a.sin_family = AF_INET; a.sin_addr.s_addr = htonl(INADDR_LOOPBACK);
		bind(s, (sockaddr*)&a, sizeof a); socklen_t l = sizeof a; getsockname(s, (sockaddr*)&a, &l); g_port = ntohs(a.sin_port); close(s);
	}
	return g_port;
}
extern "C" int vp_cli_connect(const unsigned char* data, int n)
{
	int s = socket(AF_INET, SOCK_STREAM, 0); sockaddr_in a; memset(&a, 0, sizeof a); a.sin_family = AF_INET; a.sin_addr.s_addr = htonl(INADDR_LOOPBACK); a.sin_port = htons(g_port);
	if (connect(s, (sockaddr*)&a, sizeof a)) { close(s); return -1; }
	if (n) (void)!write(s, data, n);
	g_fd[g_n] = s;
	return g_n++;
}
extern "C" int vp_cli_recv(int h, unsigned char* out, int cap)
{
	int tot = 0;
	for (;;) {
		pollfd p = { g_fd[h], POLLIN, 0 };
		if (poll(&p, 1, 300) <= 0) break;
		unsigned char b[64]; int n = (int)read(g_fd[h], b, sizeof b);
		if (n <= 0) break;
		for (int i = 0; i < n; i++) { if (tot < cap) out[tot] = b[i]; tot++; }
	}
	return tot;
}
extern "C" void vp_cli_close(int h) { if (g_fd[h] >= 0) { close(g_fd[h]); g_fd[h] = -1; } }
extern "C" int vp_srv_closed_by_server(int h) { (void)h; return 1; }
