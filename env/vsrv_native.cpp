// native counterpart of env/vsrv.c: the harness API opens real loopback TCP connections to the server under test
#include <sys/socket.h>
#include <netinet/in.h>
#include <arpa/inet.h>
#include <unistd.h>
#include <poll.h>
#include <string.h>
#include "vsrv.h"
static int g_port, g_fd[64], g_n, g_init;
extern "C" int vp_srv_port(void)
{
	if (!g_port) {      // a port derived from the process id (parallel replays must not meet), probed once for availability
		for (int k = 0; k < 50 && !g_port; k++) {
			int cand = 20000 + (int)(((long)getpid() * 7 + k * 997) % 30000);
			int s = socket(AF_INET, SOCK_STREAM, 0); int one = 1; setsockopt(s, SOL_SOCKET, SO_REUSEADDR, &one, sizeof one);
			sockaddr_in a; memset(&a, 0, sizeof a); a.sin_family = AF_INET; a.sin_addr.s_addr = htonl(INADDR_LOOPBACK); a.sin_port = htons(cand);
			if (bind(s, (sockaddr*)&a, sizeof a) == 0) g_port = cand;
			close(s);
		}
	}
	return g_port;
}
extern "C" int vp_cli_connect(const unsigned char* data, int n)
{
	int s = socket(AF_INET, SOCK_STREAM, 0); sockaddr_in a; memset(&a, 0, sizeof a); a.sin_family = AF_INET; a.sin_addr.s_addr = htonl(INADDR_LOOPBACK); a.sin_port = htons(g_port);
	if (connect(s, (sockaddr*)&a, sizeof a)) { close(s); return -1; }
	if (n) (void)!write(s, data, n);
	if (!g_init) { for (int i = 0; i < 64; i++) g_fd[i] = -1; g_init = 1; }
	for (int i = 0; i < 64; i++) if (g_fd[i] < 0) { g_fd[i] = s; return i; }
	close(s);
	return -1;
}
extern "C" int vp_cli_recv(int h, unsigned char* out, int cap)
{
	int tot = 0;
	if (g_fd[h] < 0) return 0;
	for (;;) {
		pollfd p = { g_fd[h], POLLIN, 0 };
		if (poll(&p, 1, tot ? 2000 : 30000) <= 0) break;      // generous: replays run in parallel on a loaded machine
		unsigned char b[64]; int n = (int)read(g_fd[h], b, sizeof b);
		if (n <= 0) break;
		for (int i = 0; i < n; i++) { if (tot < cap) out[tot] = b[i]; tot++; }
	}
	return tot;
}
extern "C" void vp_cli_close(int h) { if (g_fd[h] >= 0) { close(g_fd[h]); g_fd[h] = -1; } }
extern "C" int vp_srv_closed_by_server(int h) { (void)h; return 1; }
