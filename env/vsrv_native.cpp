// native counterpart of env/vsrv.c: the harness API opens real loopback TCP connections to the server under test
#include <sys/socket.h>
#include <netinet/in.h>
#include <arpa/inet.h>
#include <unistd.h>
#include <poll.h>
#include <string.h>
#include "vsrv.h"
static int g_port, g_fd[64], g_n, g_init;
static unsigned char g_buf[64][512]; static int g_blen[64], g_eof[64];
// reads what is there into the handle's buffer; waits up to ms for more; notes the end of the stream
static void drain(int h, int ms)
{
	while (g_fd[h] >= 0 && !g_eof[h]) {
		pollfd p = { g_fd[h], POLLIN, 0 };
		if (poll(&p, 1, ms) <= 0) break;
		unsigned char b[64]; int n = (int)read(g_fd[h], b, sizeof b);
		if (n <= 0) { g_eof[h] = 1; break; }
		for (int i = 0; i < n; i++) if (g_blen[h] < 512) g_buf[h][g_blen[h]++] = b[i];
	}
}
extern "C" int vp_srv_port(void)
{
	if (!g_port) {      // a port derived from the process id (parallel replays must not meet), probed once for availability
		for (int k = 0; k < 50 && !g_port; k++) {
			int cand = 20000 + (int)(((long)getpid() * 7 + k * 997) % 30000);
			int s = socket(AF_INET, SOCK_STREAM, 0); int one = 1; setsockopt(s, SOL_SOCKET, SO_REUSEADDR, &one, sizeof one);
			sockaddr_in a; memset(&a, 0, sizeof a); a.sin_family = AF_INET; a.sin_addr.s_addr = htonl(INADDR_LOOPBACK); a.sin_port = htons(cand);
			if (bind(s, (sockaddr*)&a, sizeof a) == 0) g_port = cand;
			close(s);
		}
	}
	return g_port;
}
extern "C" int vp_cli_connect(const unsigned char* data, int n)
{
	int s = socket(AF_INET, SOCK_STREAM, 0); sockaddr_in a; memset(&a, 0, sizeof a); a.sin_family = AF_INET; a.sin_addr.s_addr = htonl(INADDR_LOOPBACK); a.sin_port = htons(g_port);
	if (connect(s, (sockaddr*)&a, sizeof a)) { close(s); return -1; }
	if (n) (void)!write(s, data, n);
	if (!g_init) { for (int i = 0; i < 64; i++) g_fd[i] = -1; g_init = 1; }
	for (int i = 0; i < 64; i++) if (g_fd[i] < 0) { g_fd[i] = s; g_blen[i] = 0; g_eof[i] = 0; return i; }
	close(s);
	return -1;
}
extern "C" int vp_cli_recv(int h, unsigned char* out, int cap)
{
	if (g_fd[h] >= 0 && !g_eof[h]) { if (!g_blen[h]) drain(h, 30000); drain(h, 2000); }     // generous: replays run in parallel on a loaded machine
	for (int i = 0; i < g_blen[h] && i < cap; i++) out[i] = g_buf[h][i];
	return g_blen[h];
}
extern "C" void vp_cli_close(int h) { if (g_fd[h] >= 0) { close(g_fd[h]); g_fd[h] = -1; } }
extern "C" int vp_srv_closed_by_server(int h) { if (g_fd[h] < 0) return 1; drain(h, 1500); return g_eof[h]; }     // natively: end of stream seen within 1.5 s
extern "C" int vp_srv_accepted(int h) { (void)h; return 1; }
extern "C" void vp_cli_send(int h, const unsigned char* data, int n) { if (g_fd[h] >= 0 && n) (void)!write(g_fd[h], data, n); }
