// C19 harness: Date <-> UTC calendar fields, ISO / HTTP text round trips, parser totality
#include <asl/Date.h>
#include <asl/String.h>
#include "vp.h"
using namespace asl;

// proleptic Gregorian calendar in pure integers (reference)
static long long days_from_civil(long long y, int m, int d)
{
	y -= m <= 2;
	long long era = (y >= 0 ? y : y - 399) / 400;
	int yoe = (int)(y - era * 400);
	int doy = (153 * (m + (m > 2 ? -3 : 9)) + 2) / 5 + d - 1;
	int doe = yoe * 365 + yoe / 4 - yoe / 100 + doy;
	return era * 146097 + doe - 719468;
}
static void civil_from_days(int z, int& y, int& m, int& d)
{
	z += 719468;
	int era = (z >= 0 ? z : z - 146096) / 146097;
	int doe = z - era * 146097;
	int yoe = (doe - doe / 1460 + doe / 36524 - doe / 146096) / 365;
	y = yoe + era * 400;
	int doy = doe - (365 * yoe + yoe / 4 - yoe / 100);
	int mp = (5 * doy + 2) / 153;
	d = doy - (153 * mp + 2) / 5 + 1;
	m = mp + (mp < 10 ? 3 : -9);
	y += m <= 2;
}

// p0-p2 = centre date (y, m, d), p3 = radius in days, p4 = seconds mode (0: 00:00:00 / 12:00:00 / 23:59:59, 1: every second of the day)
extern "C" void h_split(void)
{
	int smode = vp_param(4);
	int c = (int)days_from_civil(vp_param(0), vp_param(1), vp_param(2));
	int dlo = c - vp_param(3), dhi = c + vp_param(3);
	int day = vp_range(dlo, dhi);
	int sec;
	if (smode == 0) { int k = vp_concretize(vp_range(0, 2)); sec = k == 0 ? 0 : k == 1 ? 43200 : 86399; }
	else sec = vp_range(0, 86399);
	double t = day * 86400.0 + sec;
	Date dt(t);
	DateData f = dt.splitUTC();
	int y, m, d; civil_from_days(day, y, m, d);
	vp_assert(f.year == y, "year is the proleptic Gregorian year");
	vp_assert(f.month == m, "month");
	vp_assert(f.day == d, "day");
	vp_assert(f.hours == sec / 3600 && f.minutes == (sec / 60) % 60 && f.seconds == sec % 60, "hour, minute, second");
	int wd = (day % 7 + 11) % 7;      // 1970-01-01 was a Thursday (4)
	vp_assert(f.weekDay == wd, "weekday");
	Date back(Date::UTC, y, m, d, sec / 3600, (sec / 60) % 60, sec % 60);
	vp_assert(back.time() == t, "constructing a Date from the fields gives the instant back");
	vp_note(f.year);
	vp_reach(1);
}
