// C19 harness: Date <-> UTC calendar fields, ISO / HTTP text round trips, parser totality
#include <asl/Date.h>
#include <asl/String.h>
#include "vp.h"
#include <string.h>
using namespace asl;

// proleptic Gregorian calendar in pure integers (reference)
static long long days_from_civil(long long y, int m, int d)
{
	y -= m <= 2;
	long long era = (y >= 0 ? y : y - 399) / 400;
	int yoe = (int)(y - era * 400);
	int doy = (153 * (m + (m > 2 ? -3 : 9)) + 2) / 5 + d - 1;
	int doe = yoe * 365 + yoe / 4 - yoe / 100 + doy;
	return era * 146097 + doe - 719468;
}
static void civil_from_days(int z, int& y, int& m, int& d)
{
	z += 719468;
	int era = (z >= 0 ? z : z - 146096) / 146097;
	int doe = z - era * 146097;
	int yoe = (doe - doe / 1460 + doe / 36524 - doe / 146096) / 365;
	y = yoe + era * 400;
	int doy = doe - (365 * yoe + yoe / 4 - yoe / 100);
	int mp = (5 * doy + 2) / 153;
	d = doy - (153 * mp + 2) / 5 + 1;
	m = mp + (mp < 10 ? 3 : -9);
	y += m <= 2;
}

// p0-p2 = centre date (y, m, d), p3 = radius in days, p4 = seconds mode (0: 00:00:00 / 12:00:00 / 23:59:59, 1: every second of the day)
extern "C" void h_split(void)
{
	int smode = vp_param(4);
	int c = (int)days_from_civil(vp_param(0), vp_param(1), vp_param(2));
	int dlo = c - vp_param(3), dhi = c + vp_param(3);
	int day = vp_range(dlo, dhi);
	int sec;
	if (smode == 0) { int k = vp_concretize(vp_range(0, 2)); sec = k == 0 ? 0 : k == 1 ? 43200 : 86399; }
	else sec = vp_range(0, 86399);
	double t = day * 86400.0 + sec;
	Date dt(t);
	DateData f = dt.splitUTC();
	int y, m, d; civil_from_days(day, y, m, d);
	vp_assert(f.year == y, "year is the proleptic Gregorian year");
	vp_assert(f.month == m, "month");
	vp_assert(f.day == d, "day");
	vp_assert(f.hours == sec / 3600 && f.minutes == (sec / 60) % 60 && f.seconds == sec % 60, "hour, minute, second");
	int wd = (day % 7 + 11) % 7;      // 1970-01-01 was a Thursday (4)
	vp_assert(f.weekDay == wd, "weekday");
	Date back(Date::UTC, y, m, d, sec / 3600, (sec / 60) % 60, sec % 60);
	vp_assert(back.time() == t, "constructing a Date from the fields gives the instant back");
	vp_note(f.year);
	vp_reach(1);
}

// fields -> instant: Date(UTC, y, m, d, h, mi, s) for symbolic fields; p0..p1 = year range, p2 = 1: month/day symbolic too
extern "C" void h_fields(void)
{
	int y = vp_range(vp_param(0), vp_param(1));
	int m = vp_param(2) ? vp_range(1, 12) : 3, d = vp_param(2) ? vp_range(1, 28) : 1;
	int h = vp_range(0, 23), mi = vp_range(0, 59), s = vp_range(0, 59);
	Date dt(Date::UTC, y, m, d, h, mi, s);
	long long exp = days_from_civil(y, m, d) * 86400LL + h * 3600 + mi * 60 + s;
	vp_assert(dt.time() == (double)exp, "Date(UTC, fields) is the instant of those proleptic Gregorian fields");
	vp_reach(1);
}

static const char* TEMPLATES[] = {
	"2017-05-18T03:24:12Z", "20170518T032412Z", "2017-05-18T03:24:12.123+05:30", "2017-05-18T03:24Z",
	"Thu, 18 May 2017 03:24:12 GMT", "2017-05-18", "2017-05-18T03:24:12-0530", "20170518T0324+01", "1999-12-31T23:59:59.5Z" };

static char sym_char()
{
	char c = (char)nondet_u8();
	vp_assume((c >= '0' && c <= '9') || (c >= 'A' && c <= 'Z') || (c >= 'a' && c <= 'z') || c == ':' || c == '-' || c == '+' || c == '.' || c == ' ' || c == ',');
	return c;
}

// parser totality: template p0 with the positions p1 .. p1+p2-1 replaced by arbitrary characters of the property's alphabet
// (p0 = -1: a string of p2 arbitrary characters).  Nothing is asserted about the value: the engine checks every access and termination.
extern "C" void h_parse(void)
{
	char buf[48];
	int tpl = vp_param(0), pos = vp_param(1), cnt = vp_param(2), n = 0;
	if (tpl >= 0) { const char* s = TEMPLATES[tpl]; while (s[n]) { buf[n] = s[n]; n++; } }
	else { n = cnt; pos = 0; }
	for (int i = pos; i < pos + cnt && i < n; i++) buf[i] = sym_char();
	buf[n] = 0;
	Date d = Date(String(buf));
	double t = d.time();
	vp_note(t != t ? 1 : 0);          // invalid or some value
	vp_reach(1);
}

// zone offsets: the same concrete wall-clock text with a symbolic numeric offset denotes the 'Z' instant shifted by the offset
extern "C" void h_zone(void)
{
	static const char* BASE[] = { "2017-05-18T03:24:12", "1970-01-01T00:00:00", "2096-02-29T23:59:59", "0001-01-01T00:00:00", "9999-12-31T23:59:59" };
	const char* b = BASE[vp_param(0)];
	int syntax = vp_param(1);           // 0: +HH  1: +HHMM  2: +HH:MM
	int neg = nondet_bool() ? 1 : 0, hh = vp_range(0, 23), mm = syntax ? vp_range(0, 59) : 0;
	char buf[40]; int n = 0;
	while (b[n]) { buf[n] = b[n]; n++; }
	int n0 = n;
	buf[n++] = neg ? '-' : '+';
	buf[n++] = (char)('0' + hh / 10); buf[n++] = (char)('0' + hh % 10);
	if (syntax == 2) buf[n++] = ':';
	if (syntax) { buf[n++] = (char)('0' + mm / 10); buf[n++] = (char)('0' + mm % 10); }
	buf[n] = 0;
	Date d = Date(String(buf));
	buf[n0] = 'Z'; buf[n0 + 1] = 0;
	Date z = Date(String(buf));
	int off = (hh * 60 + mm) * 60;
	vp_assert(z.time() == z.time(), "the 'Z' form of a valid date-time parses");
	vp_assert(d.time() == z.time() - (neg ? -off : off), "an ISO string with a numeric zone offset denotes the UTC instant shifted by that offset");
	vp_note(neg);
	vp_reach(1);
}

// fractional seconds: p0 = number of digits (1..9), all symbolic; the result is a valid instant within the same second
extern "C" void h_frac(void)
{
	int k = vp_param(0), zone = vp_param(1);
	char buf[48]; int n = 0;
	const char* b = "2017-05-18T03:24:12.";
	while (b[n]) { buf[n] = b[n]; n++; }
	for (int i = 0; i < k; i++) { char c = (char)nondet_u8(); vp_assume(c >= '0' && c <= '9'); buf[n++] = c; }
	const char* z = zone ? "+01:00" : "Z";
	while (*z) buf[n++] = *z++;
	buf[n] = 0;
	Date d = Date(String(buf));
	Date base = Date(String(zone ? "2017-05-18T03:24:12+01:00" : "2017-05-18T03:24:12Z"));
	double t = d.time(), t0 = base.time();
	vp_assert(t == t, "a date-time with 1..9 fractional digits is valid");
	vp_assert(t >= t0 && t <= t0 + 1.0, "the fraction adds at most one second to the instant (a double near 1.5e9 resolves 2.4e-7 s, so .99999998 may round up to the next second)");
	vp_note(1);
	vp_reach(1);
}

// HTTP format vs ISO format of the same wall-clock text with a symbolic 4-digit year and day: both denote the same instant
static unsigned long long dbits(double x) { unsigned long long u; memcpy(&u, &x, 8); return u; }
// p0 = 0: year digits symbolic; p0 = 1..: one of a few concrete years (the symbolic comparison is decided syntactically when both
// parsers build the same term; concrete years give a definite verdict when they do not)
extern "C" void h_http(void)
{
	static const char* const YEARS[] = { "", "0001", "0050", "0099", "0100", "1900", "1969", "2000", "9999" };
	int which = vp_param(0);
	char y[5]; for (int i = 0; i < 4; i++) { if (which) y[i] = YEARS[which][i]; else { y[i] = (char)nondet_u8(); vp_assume(y[i] >= '0' && y[i] <= '9'); } } y[4] = 0;
	vp_assume(!(y[0] == '0' && y[1] == '0' && y[2] == '0' && y[3] == '0'));
	char d0 = (char)nondet_u8(), d1 = (char)nondet_u8(); vp_assume(d0 >= '0' && d0 <= '2' && d1 >= '0' && d1 <= '9' && !(d0 == '0' && d1 == '0') && !(d0 == '2' && d1 == '9'));
	char h[40], s[32]; int n = 0, m = 0;
	const char* a = "Tue, "; while (*a) h[n++] = *a++;
	h[n++] = d0; h[n++] = d1;
	a = " Mar "; while (*a) h[n++] = *a++;
	for (int i = 0; i < 4; i++) h[n++] = y[i];
	a = " 12:34:56 GMT"; while (*a) h[n++] = *a++;
	h[n] = 0;
	for (int i = 0; i < 4; i++) s[m++] = y[i];
	a = "-03-"; while (*a) s[m++] = *a++;
	s[m++] = d0; s[m++] = d1;
	a = "T12:34:56Z"; while (*a) s[m++] = *a++;
	s[m] = 0;
	Date dh = Date(String(h)), di = Date(String(s));
	if (which) vp_assert(di.time() == di.time(), "the ISO form of a valid date parses");
	vp_assert(dbits(dh.time()) == dbits(di.time()), "the HTTP format and the ISO format of the same date and time denote the same instant");
	vp_note(1);
	vp_reach(1);
}

// format -> parse at a few CONCRETE instants (regression vectors executed by the same engine; nothing symbolic here, the
// calendar arithmetic is not decided for symbolic instants - see the spec): p0 = instant, p1 = format (0 LONG, 1 SHORT, 2 FULL, 3 HTTP)
extern "C" void h_format_at(void)
{
	static const double T[] = { 0.0, 0.5, -0.25, -86400.5, 1250000000.123, 951782400.0 /* 2000-02-29 */, -62135596800.0 /* 0001-01-01 */, 253402300799.0 /* 9999-12-31T23:59:59 */, -2208988800.75 };
	static const Date::Format F[] = { Date::LONG, Date::SHORT, Date::FULL, Date::HTTP };
	double t = T[vp_param(0)]; int fi = vp_param(1);
	Date d(t);
	String s = d.toUTCString(F[fi]);
	Date back(s);
	double u = back.time();
	vp_assert(u == u, "the formatted text of a valid instant parses");
	double fl = floor(t);
	if (fi == 2) vp_assert(u - t < 0.0011 && t - u < 0.0011, "FULL format round trip is exact to the millisecond");
	else vp_assert(u == fl || u == t, "LONG / SHORT / HTTP format round trip gives the instant truncated to the second");
	vp_note((long long)u);
	vp_reach(1);
}
