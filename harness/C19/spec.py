SOURCES = ['Date.cpp', 'String.cpp', 'unicodedata.cpp', 'util.cpp']
HARNESS = 'h_c19.cpp'
ENV = ['vlibc.c']
TEMPLATES = ["2017-05-18T03:24:12Z", "20170518T032412Z", "2017-05-18T03:24:12.123+05:30", "2017-05-18T03:24Z",
             "Thu, 18 May 2017 03:24:12 GMT", "2017-05-18", "2017-05-18T03:24:12-0530", "20170518T0324+01", "1999-12-31T23:59:59.5Z"]


def instances(tier):
    q = tier == 'quick'
    out = []
    W = 2 if q else 3
    for ti, t in enumerate(TEMPLATES):
        for pos in range(0, len(t) - W + 1, 1 if not q else 2):
            out.append({'entry': 'h_parse', 'params': [ti, pos, W],
                        'bound': 'Date("%s") with characters %d..%d replaced by arbitrary characters of the alphabet (digits, letters, T Z : - + . , space)' % (t, pos, pos + W - 1)})
    for L in ((1, 2, 3) if q else (1, 2, 3, 4)):
        out.append({'entry': 'h_parse', 'params': [-1, 0, L], 'bound': 'Date(s) for every string s of %d characters of the alphabet' % L})
    for b in ((0, 3, 4) if q else (0, 1, 2, 3, 4)):
        for syn in (0, 1, 2):
            out.append({'entry': 'h_zone', 'params': [b, syn], 'opts': {'timeout_ms': 300000},
                        'bound': 'base instant %d, zone offset syntax %s with symbolic sign, hours 00-23%s' % (b, ('+HH', '+HHMM', '+HH:MM')[syn], ' and minutes 00-59' if syn else '')})
    for k in ((1, 3, 8, 9) if q else (1, 2, 3, 4, 5, 6, 7, 8, 9)):
        out.append({'entry': 'h_frac', 'params': [k, k % 2], 'opts': {'timeout_ms': 300000}, 'bound': 'fractional seconds with every %d digit(s), zone %s' % (k, '+01:00' if k % 2 else 'Z')})
    for yi in ((2, 4, 8) if q else (1, 2, 3, 4, 5, 6, 7, 8)):
        out.append({'entry': 'h_http', 'params': [yi], 'opts': {'timeout_ms': 300000}, 'bound': 'HTTP-format vs ISO-format text of the same date: year %s, every day 01-28 (symbolic digits)' % ['', '0001', '0050', '0099', '0100', '1900', '1969', '2000', '9999'][yi]})
    for ti in range(9):
        for fi in (0, 1, 2, 3):
            out.append({'entry': 'h_format_at', 'params': [ti, fi], 'bound': 'CONCRETE instant #%d formatted as %s and parsed back (regression vector, not a symbolic claim)' % (ti, ('LONG', 'SHORT', 'FULL', 'HTTP')[fi])})
    return out


BOUNDS = {'quick': 'parser: 9 ISO/HTTP template strings with every window of 2 positions (step 2) replaced by arbitrary alphabet characters, and every string up to 3 characters; fractional seconds of 1, 3, 8, 9 symbolic digits; zone offsets: every sign, hour 00-23 and minute 00-59 in the three syntaxes at 3 concrete instants',
          'thorough': 'windows of 3 positions at every offset, strings to 4 characters, 5 instants'}
OUTSIDE = ['(9 concrete instants are formatted and parsed back in the four formats as regression vectors; they decide nothing about other instants)', 'the calendar arithmetic clauses (seconds <-> fields for every day of years 1-9999, format/parse round trip of arbitrary instants): they are double-precision computations (floor(t*(1/86400.0)), fraction-of-day times 24, 60, 60) that z3 and cvc5 could not decide bit-precisely even for 3-year windows (unknown after 150-600 s); they are NOT claimed',
           'strings with more than 3 simultaneously arbitrary characters', 'strings without zone designator beyond parsing (local time goes through localtime, an environment model)', 'the format-driven parser Date::parse(fmt)']
ASSUMPTIONS = ['libc = env/vlibc.c (localtime = UTC)', 'pow(10, k) for concrete k is evaluated concretely']
