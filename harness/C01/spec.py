SOURCES = ['String.cpp']
HARNESS = 'h_c01.cpp'
ENV = ['vlibc.c']
ALL = 16383          # all 14 ops
NOSORT = ALL & ~(1 << 11)
GROW = 0b11011       # append, insert, resize, reserve: the ops that can reallocate


def instances(tier):
    q = tier == 'quick'
    out = []

    def add(entry, nops, res, n0, topo, mask, note):
        out.append({'entry': entry, 'params': [nops, res, n0, topo, mask],
                    'bound': '%d symbolic op(s) from a %d-element array (reserve %d), topology %d: %s' % (nops, n0, res, topo, note)})
    T = ['single handle', 'second handle to the same array (no reallocating op)', 'clone kept aside', 'second handle, reallocation allowed']
    for e in ('h_hist_int', 'h_hist_counted'):
        add(e, 2 if q else 3, 0, 0, 0, ALL, T[0])
        add(e, 2, 0, 3, 0, ALL, T[0] + ', array full at capacity 3')
        add(e, 2, 0, 2, 2, ALL, T[2])
        add(e, 2, 0, 0, 2, ALL, T[2] + ' (clone of an empty array)')
        add(e, 2, 8, 3, 1, ALL, T[1])
        add(e, 1, 0, 6, 0, ALL, T[0] + ', array full at capacity 6')
        add(e, 1, 0, 12, 0, NOSORT, T[0] + ', array full at capacity 12')
        add(e, 1, 0, 3, 3, GROW, T[3])
        if not q:
            add(e, 3, 0, 3, 0, NOSORT, T[0]); add(e, 3, 0, 2, 2, NOSORT, T[2]); add(e, 2, 0, 6, 2, ALL, T[2]); add(e, 3, 8, 3, 1, NOSORT, T[1])
    add('h_hist_string', 1, 0, 3, 0, ALL, T[0] + ', heap and inline strings')
    add('h_hist_string', 2, 0, 2, 0, ALL, T[0])
    add('h_hist_string', 1, 0, 6, 2, ALL, T[2])
    add('h_hist_string', 1, 8, 3, 1, ALL, T[1])
    if not q:
        add('h_hist_string', 2, 0, 3, 2, ALL, T[2]); add('h_hist_string', 3, 0, 1, 0, NOSORT, T[0])
    out.append({'entry': 'h_stack_queue', 'params': [3 if q else 5], 'bound': 'histories of push/pop/popget/top resp. put/get'})
    return out


BOUNDS = {'quick': 'every history of 2 operations (14 op kinds, all in-range indices/counts, symbolic element values) from arrays of 0/2/3 elements and 1 operation from full arrays of 3, 6 and 12 elements, for int, a counted class and String elements, through a single handle, a shared second handle and a clone; Stack/Queue histories of 3 ops',
          'thorough': 'as quick with histories of 3 operations and Stack/Queue histories of 5'}
OUTSIDE = ['histories longer than 3 operations', 'arrays longer than 24 elements', 'sort of more than 3 elements', 'the 2^31 overflow branches', 'allocation failure']
ASSUMPTIONS = ['relational comparisons of pointers into different objects are evaluated on one fixed layout (allocation order)']
