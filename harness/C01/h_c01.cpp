// C01 harnesses: Array / Stack / Queue against a reference sequence, through several handles
#include <asl/Array.h>
#include <asl/Stack.h>
#include <asl/Queue.h>
#include <asl/String.h>
#include "vp.h"
using namespace asl;

struct Counted
{
	static int live, ctors, dtors;
	int id;
	Counted() : id(0) { live++; ctors++; }
	Counted(int i) : id(i) { live++; ctors++; }
	Counted(const Counted& o) : id(o.id) { live++; ctors++; }
	~Counted() { live--; dtors++; }
	Counted& operator=(const Counted& o) { id = o.id; return *this; }
	bool operator==(const Counted& o) const { return id == o.id; }
	bool operator!=(const Counted& o) const { return id != o.id; }
	bool operator<(const Counted& o) const { return id < o.id; }
};
int Counted::live = 0, Counted::ctors = 0, Counted::dtors = 0;

static const char* const STRS[4] = { "", "abc", "0123456789abcdef", "0123456789abcdefghijklm" };

// element adapters: value <-> int key
template<class T> struct El;
template<> struct El<int> { static int mk(int k) { return k; } static int key(const int& x) { return x; } static int fresh() { return (int)nondet_u32(); } };
template<> struct El<Counted> { static Counted mk(int k) { return Counted(k); } static int key(const Counted& x) { return x.id; } static int fresh() { return (int)nondet_u32(); } };
template<> struct El<String>
{
	static String mk(int k) { return String(STRS[k & 3]); }
	static int key(const String& x) { for (int i = 0; i < 4; i++) if (x == STRS[i]) return i; return -1; }
	static int fresh() { static int ctr = 0; return (ctr++) & 3; }   // concrete rotating values: ops and indices are the symbolic part
};

#define MAXN 24
struct Ref { int v[MAXN]; int n; };

template<class T>
static void check_eq(const Array<T>& a, const Ref& r, const char* msg)
{
	vp_assert(a.length() == r.n, msg);
	for (int i = 0; i < r.n && i < a.length(); i++) vp_assert(El<T>::key(a[i]) == r.v[i], msg);
}

static bool isneg(const int& x) { return x < 0; }
static bool isneg(const Counted& x) { return x.id < 0; }
static bool isneg(const String& x) { return x.length() == 3; }
template<class T> struct Neg { bool operator()(const T& x) const { return isneg(x); } };

// p0 = number of ops, p1 = reserve() applied to the fresh array (0 = none), p2 = initial length,
// p3 = handle topology: 0 single handle, 1 second handle to the same array (ops that reallocate excluded), 2 clone kept aside,
//      3 second handle + growth allowed
// p4 = op mask (bit i enables op i)
template<class T>
static void hist()
{
	int nops = vp_param(0), res = vp_param(1), n0 = vp_param(2), topo = vp_param(3), opmask = vp_param(4);
	int live0 = Counted::live;
	{
		Array<T> a;
		Ref r; r.n = 0;
		if (res) a.reserve(res);
		for (int i = 0; i < n0; i++) { int k = El<T>::fresh(); a << El<T>::mk(k); r.v[r.n++] = El<T>::key(El<T>::mk(k)); }
		check_eq(a, r, "initial contents");
		Array<T> b;            // second handle
		Array<T> c;            // clone
		Ref cr; cr.n = 0;
		if (topo == 1 || topo == 3) b = a;
		if (topo == 2) { c = a.clone(); cr = r; }
		for (int s = 0; s < nops; s++) {
			int op = vp_concretize(vp_range(0, 13));
			vp_assume((opmask >> op) & 1);
			int n = r.n;
			bool full = a.length() == a.cap();
			switch (op) {
			case 0: { // append a fresh value
				vp_assume(n < MAXN - 1); if (topo == 1) vp_assume(!full);
				int k = El<T>::fresh(); a << El<T>::mk(k); r.v[r.n++] = El<T>::key(El<T>::mk(k)); break; }
			case 1: { // insert at any valid position
				vp_assume(n < MAXN - 1); if (topo == 1) vp_assume(!full);
				int p = vp_range(0, n); int k = El<T>::fresh();
				a.insert(p, El<T>::mk(k));
				for (int i = r.n; i > p; i--) r.v[i] = r.v[i - 1];
				r.v[p] = El<T>::key(El<T>::mk(k)); r.n++; break; }
			case 2: { // remove count elements at i
				vp_assume(n > 0); int i = vp_range(0, n - 1); int cnt = vp_range(1, n - i);
				a.remove(i, cnt);
				for (int j = i; j + cnt < r.n; j++) r.v[j] = r.v[j + cnt];
				r.n -= cnt; break; }
			case 3: { // resize (shrink or grow with default elements)
				int m = vp_concretize(vp_range(0, n + 3)); vp_assume(m < MAXN); if (topo == 1) vp_assume(m <= a.cap());
				a.resize(m);
				// new elements are default-constructed (indeterminate for int): check class types, then give all a value
				for (int i = r.n; i < m; i++) {
					if (sizeof(T) != sizeof(int)) vp_assert(El<T>::key(a[i]) == El<T>::key(T()), "resize default-constructs new elements");
					int k = El<T>::fresh(); a[i] = El<T>::mk(k); r.v[i] = El<T>::key(El<T>::mk(k));
				}
				r.n = m; break; }
			case 4: { // reserve
				int m = vp_concretize(vp_range(0, 2 * a.cap() + 1)); if (topo == 1) vp_assume(m <= a.cap());
				a.reserve(m); vp_assert(a.cap() >= m, "reserve gives the capacity"); break; }
			case 5: { a.clear(); r.n = 0; break; }
			case 6: { // append an element of the array itself
				vp_assume(n > 0 && n < MAXN - 1); if (topo == 1) vp_assume(!full);
				int j = vp_range(0, n - 1);
				a << a[j]; r.v[r.n] = r.v[j]; r.n++; break; }
			case 7: { // insert an element of the array itself
				vp_assume(n > 0 && n < MAXN - 1); if (topo == 1) vp_assume(!full);
				int p = vp_range(0, n), j = vp_range(0, n - 1);
				int val = r.v[j];
				a.insert(p, a[j]);
				for (int i = r.n; i > p; i--) r.v[i] = r.v[i - 1];
				r.v[p] = val; r.n++; break; }
			case 8: { // append the array to itself
				vp_assume(2 * n < MAXN); if (topo == 1) vp_assume(2 * n <= a.cap());
				a.append(a);
				for (int i = 0; i < n; i++) r.v[n + i] = r.v[i];
				r.n = 2 * n; break; }
			case 9: { // slice and concat are pure
				vp_assume(n > 0); int i = vp_range(0, n - 1), j = vp_range(i + 1, n);
				Array<T> sl = a.slice(i, j);
				vp_assert(sl.length() == j - i, "slice length");
				for (int q = 0; q < j - i && q < sl.length(); q++) vp_assert(El<T>::key(sl[q]) == r.v[i + q], "slice contents");
				Array<T> cc = a.concat(sl);
				vp_assert(cc.length() == n + j - i, "concat length");
				for (int q = 0; q < cc.length() && q < n + j - i; q++) vp_assert(El<T>::key(cc[q]) == (q < n ? r.v[q] : r.v[i + q - n]), "concat contents");
				break; }
			case 10: { // removeIf
				a.removeIf(Neg<T>());
				int w = 0;
				for (int i = 0; i < r.n; i++) if (!isneg(El<T>::mk(r.v[i]))) r.v[w++] = r.v[i];
				r.n = w; break; }
			case 11: { // sort (small arrays: n! orderings)
				vp_assume(n <= 3);
				a.sort();
				for (int i = 1; i < r.n; i++) { int x = r.v[i], j = i; while (j > 0 && El<T>::mk(x) < El<T>::mk(r.v[j - 1])) { r.v[j] = r.v[j - 1]; j--; } r.v[j] = x; }
				break; }
			case 12: { // copy-construct and drop a handle, self-assignment
				{ Array<T> t(a); vp_assert(t.length() == n, "copy handle length"); }
				a = a; break; }
			case 13: { // indexOf / contains / last / == agree with the model
				vp_assume(n > 0); int j = vp_range(0, n - 1);
				int first = 0; while (r.v[first] != r.v[j]) first++;
				vp_assert(a.indexOf(a[j]) == first, "indexOf finds the first occurrence");
				vp_assert(a.contains(a[j]), "contains");
				vp_assert(El<T>::key(a.last()) == r.v[n - 1], "last");
				vp_assert(a == a.clone(), "array equals its clone");
				break; }
			}
			check_eq(a, r, "array equals the reference sequence after the operation");
			if (topo == 1 || topo == 3) check_eq(b, r, "second handle sees the same sequence");
			if (topo == 2) check_eq(c, cr, "clone unaffected by later changes to its source");
			vp_assert(a.length() <= a.cap(), "length within capacity");
		}
		if (sizeof(T) == sizeof(Counted) && Counted::live != live0) {
			int expect = r.n + (topo == 2 ? cr.n : 0);
			vp_assert(Counted::live - live0 == expect, "live elements == sum of lengths of distinct arrays");
		}
		vp_note(r.n);
	}
	vp_assert(Counted::live == live0, "every element constructed once and destroyed once");
	vp_reach(1);
}

extern "C" void h_hist_int(void) { hist<int>(); }
extern "C" void h_hist_counted(void) { hist<Counted>(); }
extern "C" void h_hist_string(void) { hist<String>(); }

// Stack and Queue: p0 = number of ops; push/pop/popget/top resp. put/get against LIFO/FIFO reference
extern "C" void h_stack_queue(void)
{
	int nops = vp_param(0);
	Stack<int> st; Queue<int> qu; Stack<String> ss;
	int ref[16]; int n = 0;      // same contents in all three
	for (int s = 0; s < nops; s++) {
		int op = vp_concretize(vp_range(0, 3));
		if (op == 0) { vp_assume(n < 15); int x = (int)nondet_u32(); st.push(x); qu.put(x); ss.push(String(STRS[n & 3])); ref[n++] = x; }
		else if (op == 1) { vp_assume(n > 0); int x = st.popget(); vp_assert(x == ref[n - 1], "popget returns the last pushed");
			int y = qu.get(); vp_assert(y == ref[0], "get returns the first put");
			String z = ss.popget(); vp_assert(z == STRS[(n - 1) & 3], "String stack popget");
			// re-align the queue with the stack contents: drop last, re-put first
			Queue<int> q2; q2.put(y); for (int i = 1; i < n - 1; i++) q2.put(ref[i]); qu = q2; n--;
			if (n > 0) { } else { qu.clear(); } }
		else if (op == 2) { vp_assume(n > 0); vp_assert(st.top() == ref[n - 1], "top"); st.pop(); qu.resize(n - 1); ss.pop(); n--; }
		else { vp_assume(n > 1); vp_assert(st.top(1) == ref[n - 2], "top(1)"); }
		vp_assert(st.length() == n && ss.length() == n, "stack length");
		for (int i = 0; i < n; i++) vp_assert(st[i] == ref[i], "stack contents");
	}
	vp_reach(2);
}
