// C13 harness: Thread start/join/finished, lambda threads, parallel_for, parallel_invoke, ThreadGroup, Semaphore, Condition
// executed on the engine's thread model (engine/threads_sym.py): every pthread is a coroutine, the schedule is a
// sequence of recorded decisions at the visible operations (volatile/atomic accesses, pthread/sem calls, thread exit).
#include <asl/Thread.h>
#include <asl/Mutex.h>
#include <asl/Array.h>
#include "vp.h"
#include <unistd.h>
using namespace asl;

static int g_count[48];
static int g_ran, g_val;

struct Worker : public Thread
{
	int id, *out;
	Worker() : id(0), out(0) {}
	Worker(int i, int* o) : id(i), out(o) {}
	void run() { if (out) out[id]++; g_val = g_val * 3 + id + 1; g_ran++; }
};

// subclassed thread: run() exactly once, effects visible after join, finished() true afterwards
extern "C" void h_subclass(void)
{
	vp_sched_budget(vp_param(0));
	int n = vp_param(1);
	Worker w[3];
	for (int i = 0; i < n; i++) { w[i].id = i; w[i].out = g_count; }
	for (int i = 0; i < n; i++) w[i].start();
	for (int i = 0; i < n; i++) w[i].join();
	for (int i = 0; i < n; i++)
	{
		vp_assert(g_count[i] == 1, "a started Thread executed run() exactly once");
		vp_assert(w[i].finished(), "finished() is true after join()");
	}
	vp_assert(g_ran == n, "every started thread ran");
	vp_note(g_ran);
	vp_reach(1);
}

// lambda thread: body from empty to several visible steps
extern "C" void h_lambda(void)
{
	vp_sched_budget(vp_param(0));
	int kind = vp_param(1);
	int hits = 0, x = (int)nondet_u8();
	volatile int step = 0;
	{
		Thread t([&]() { if (kind == 0) return; hits++; if (kind == 2) { step = 1; step = 2; } g_val = x + 1; });
		if (kind == 2) { int s = step; (void)s; }
		t.join();
		vp_assert(hits == (kind ? 1 : 0), "the lambda ran exactly once before join() returned");
		vp_assert(kind == 0 || g_val == x + 1, "effects of the lambda are visible after join()");
		vp_assert(t.finished(), "finished() is true after join() for a lambda thread");
	}
	vp_note(hits);
	vp_reach(1);
}

// parallel_for: every index in [i0,i1) exactly once and no other index
extern "C" void h_parfor(void)
{
	vp_sched_budget(vp_param(0));
	int lo = vp_param(1), hi = vp_param(2), nmax = vp_param(3);
	int i0 = (int)nondet_u8() - 3, i1 = (int)nondet_u8() - 3, nth = (int)nondet_u8();
	vp_assume(i0 >= -3 && i0 <= hi && i1 >= lo && i1 <= hi && nth >= 1 && nth <= nmax);
	int* cnt = g_count + 4;
	Thread::parallel_for(i0, i1, [=](int i) { if (i >= -4 && i < 44) cnt[i]++; else g_ran = -1000; }, nth);
	vp_assert(g_ran == 0, "parallel_for invoked f for an index far outside the range");
	for (int i = -4; i < 44; i++)
		vp_assert(cnt[i] == ((i >= i0 && i < i1) ? 1 : 0), "parallel_for invokes f exactly once per index in [i0,i1) and for no other index");
	vp_note(i1 > i0 ? i1 - i0 : 0);
	vp_reach(1);
}

// parallel_invoke with 2, 3, 4 functions
extern "C" void h_invoke(void)
{
	vp_sched_budget(vp_param(0));
	int k = vp_param(1), slow = vp_param(2);      // natively one of the functions takes its time (the schedules the engine explores)
	int a = 0, b = 0, c = 0, d = 0;
	#define SLOW(i) if (slow == i && !vp_symbolic_run()) usleep(40000)
	if (k == 2) Thread::parallel_invoke([&]() { SLOW(1); a++; }, [&]() { SLOW(2); b++; });
	else if (k == 3) Thread::parallel_invoke([&]() { SLOW(1); a++; }, [&]() { SLOW(2); b++; }, [&]() { SLOW(3); c++; });
	else Thread::parallel_invoke([&]() { SLOW(1); a++; }, [&]() { SLOW(2); b++; }, [&]() { SLOW(3); c++; }, [&]() { SLOW(4); d++; });
	vp_assert(a == 1 && b == 1 && (k < 3 || c == 1) && (k < 4 || d == 1), "parallel_invoke ran every function exactly once before returning");
	vp_assert(c <= 1 && d <= 1 && (k >= 3 || c == 0) && (k >= 4 || d == 0), "parallel_invoke ran no other function");
	vp_note(a + b + c + d);
	vp_reach(1);
}

// ThreadGroup start/join
extern "C" void h_group(void)
{
	vp_sched_budget(vp_param(0));
	int n = vp_param(1);
	{
		ThreadGroup<Worker> g;
		for (int i = 0; i < n; i++) g << Worker(i, g_count);
		g.start();
		g.join();
		for (int i = 0; i < n; i++)
		{
			vp_assert(g_count[i] == 1, "every ThreadGroup member ran exactly once before join() returned");
			vp_assert(g._threads[i].finished(), "finished() is true for every member after join()");
		}
	}
	vp_assert(g_ran == n, "every member ran");
	vp_note(g_ran);
	vp_reach(1);
}

// Semaphore: no post is lost; Condition under the documented protocol: no signal is lost
extern "C" void h_sem(void)
{
	vp_sched_budget(vp_param(0));
	int posts = vp_param(1);
	Semaphore sem;
	int got = 0;
	{
		Thread t([&]() { for (int i = 0; i < posts; i++) { sem.wait(); got++; } });
		if (vp_param(2)) sem.post(posts); else for (int i = 0; i < posts; i++) sem.post();
		t.join();
	}
	vp_assert(got == posts, "every post was received by a wait");
	vp_assert(sem.value() == 0 && !sem.trywait(), "no post is left over or invented");
	vp_note(got);
	vp_reach(1);
}

struct Waiter : public Thread
{
	Mutex* mutex; Condition* cond; bool* ready; int* seen;
	void run() { mutex->lock(); while (!*ready) cond->wait(); (*seen)++; mutex->unlock(); }
};
// p1 = number of waiting threads (documented protocol: lock; while (!ready) wait(); unlock / lock; ready = true; signal(); unlock)
extern "C" void h_cond(void)
{
	vp_sched_budget(vp_param(0));
	int nw = vp_param(1);
	Mutex mutex;
	Condition cond(mutex);
	bool ready = false;
	int seen = 0;
	{
		Waiter w[3];
		for (int i = 0; i < nw; i++) { w[i].mutex = &mutex; w[i].cond = &cond; w[i].ready = &ready; w[i].seen = &seen; w[i].start(); }
		if (!vp_symbolic_run()) usleep(100000);      // natively: let the waiters reach wait() first (the case the engine found)
		mutex.lock(); ready = true; cond.signal(); mutex.unlock();
		for (int i = 0; i < nw; i++) w[i].join();
	}
	vp_assert(seen == nw, "every waiter observed the signalled condition (no signal is lost)");
	vp_note(seen);
	vp_reach(1);
}

// two lambda threads of the same closure type started one after the other: each runs its own function exactly once
extern "C" void h_lambda2(void)
{
	vp_sched_budget(vp_param(0));
	int cnt[2] = { 0, 0 };
	{
		int which = 0;
		auto mk = [&cnt](int k) { return [&cnt, k]() { cnt[k]++; }; };
		Thread a(mk(0));
		Thread b(mk(1));
		(void)which;
		a.join(); b.join();
		vp_assert(a.finished() && b.finished(), "finished() after join() for both lambda threads");
	}
	vp_assert(cnt[0] == 1 && cnt[1] == 1, "each of two lambda threads of the same type ran its own function exactly once");
	vp_note(cnt[0] + cnt[1]);
	vp_reach(1);
}

// two function-object threads of the same type; natively the functor's copy is slow in the new thread, which holds the
// thread inside the hand-over exactly where the engine's schedules switch
#include <pthread.h>
static pthread_t g_creator;
struct SlowCopy
{
	int* cnt; int k; int pad[6];
	SlowCopy(int* c, int i) : cnt(c), k(i) { for (int j = 0; j < 6; j++) pad[j] = 7; }
	SlowCopy(const SlowCopy& o) : cnt(o.cnt), k(o.k)
	{
		if (!vp_symbolic_run() && !pthread_equal(pthread_self(), g_creator)) usleep(30000);
		for (int j = 0; j < 6; j++) pad[j] = o.pad[j];
	}
	void operator()() const { if (k >= 0 && k < 2) cnt[k]++; else cnt[0] = -100; }
};
extern "C" void h_functor2(void)
{
	vp_sched_budget(vp_param(0));
	g_creator = pthread_self();
	int cnt[2] = { 0, 0 };
	{
		Thread a(SlowCopy(cnt, 0));
		Thread b(SlowCopy(cnt, 1));
		a.join(); b.join();
		vp_assert(a.finished() && b.finished(), "finished() after join() for both function threads");
	}
	vp_assert(cnt[0] == 1 && cnt[1] == 1, "each of two function-object threads of the same type ran its own function exactly once");
	vp_note(cnt[0] + cnt[1]);
	vp_reach(1);
}

// parallel_for with a function object whose copy is slow in the worker threads natively (holds each worker inside the
// hand-over of its start-up context): p1 = range length, p2 = thread count
struct SlowCopyN
{
	int* cnt; int pad[6];
	SlowCopyN(int* c) : cnt(c) { for (int j = 0; j < 6; j++) pad[j] = 7; }
	SlowCopyN(const SlowCopyN& o) : cnt(o.cnt)
	{
		if (!vp_symbolic_run() && !pthread_equal(pthread_self(), g_creator)) usleep(20000);
		for (int j = 0; j < 6; j++) pad[j] = o.pad[j];
	}
	void operator()(int i) const { if (i >= 0 && i < 16) cnt[i]++; else cnt[16]++; }
};
extern "C" void h_parfor_functor(void)
{
	vp_sched_budget(vp_param(0));
	g_creator = pthread_self();
	int n = vp_param(1), nth = vp_param(2);
	int cnt[17]; for (int i = 0; i < 17; i++) cnt[i] = 0;
	Thread::parallel_for(0, n, SlowCopyN(cnt), nth);
	for (int i = 0; i < 16; i++) vp_assert(cnt[i] == (i < n ? 1 : 0), "parallel_for with a function object: every index exactly once");
	vp_assert(cnt[16] == 0, "parallel_for with a function object: no index outside the range");
	vp_note(n);
	vp_reach(1);
}
