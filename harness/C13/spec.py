SOURCES = []
HARNESS = 'h_c13.cpp'
ENV = ['vlibc.c']
NATIVE_TIMEOUT = 25     # a native run that hangs (lost wake-up) is the confirmation of a 'deadlock' counterexample


def instances(tier):
    q = tier == 'quick'
    out = []
    B = 2 if q else 3
    for n in ((1, 2) if q else (1, 2, 3)):
        out.append({'entry': 'h_subclass', 'params': [B if n < 3 else 2, n], 'bound': '%d subclassed Thread(s) start()/join()/finished(), every schedule with at most %d preemptions at the visible operations' % (n, B if n < 3 else 2)})
        out.append({'entry': 'h_group', 'params': [B if n < 3 else 2, n], 'bound': 'ThreadGroup of %d members start()/join(), at most %d preemptions' % (n, B if n < 3 else 2)})
    for kind in (0, 1, 2):
        out.append({'entry': 'h_lambda', 'params': [B, kind], 'bound': 'lambda Thread with %s body, join(), finished(); at most %d preemptions' % (('an empty', 'a one-step', 'a multi-step')[kind], B)})
    for k in (2, 3, 4):
        for slow in ((k,) if q else tuple(range(1, k + 1))):
            out.append({'entry': 'h_invoke', 'params': [2 if k < 4 else 1, k, slow], 'bound': 'parallel_invoke of %d functions, at most %d preemptions (natively function %d is slow)' % (k, 2 if k < 4 else 1, slow)})
    # parallel_for: i0, i1 and the thread count are symbolic within the stated ranges
    out.append({'entry': 'h_parfor', 'params': [2, 0, 2, 2], 'bound': 'parallel_for: symbolic -3 <= i0 <= 2, 0 <= i1 <= 2, 1 <= nth <= 2; at most 2 preemptions'})
    out.append({'entry': 'h_parfor', 'params': [1, 0, 3, 3], 'bound': 'parallel_for: symbolic -3 <= i0 <= 3, 0 <= i1 <= 3, 1 <= nth <= 3; at most 1 preemption'})
    if q:
        out.append({'entry': 'h_parfor', 'params': [0, -3, 12, 5], 'bound': 'parallel_for: symbolic -3 <= i0, i1 <= 12, 1 <= nth <= 5; hand-over schedule without preemption (each worker runs when its creator waits)'})
    else:
        out.append({'entry': 'h_parfor', 'params': [2, 0, 3, 3], 'bound': 'parallel_for: symbolic -3 <= i0 <= 3, 0 <= i1 <= 3, 1 <= nth <= 3; at most 2 preemptions'})
        out.append({'entry': 'h_parfor', 'params': [0, -3, 40, 12], 'bound': 'parallel_for: symbolic -3 <= i0, i1 <= 40, 1 <= nth <= 12 (the whole stated range); hand-over schedule without preemption'})
    for posts in ((1, 2) if q else (1, 2, 3)):
        for mode in (0, 1):
            out.append({'entry': 'h_sem', 'params': [B, posts, mode], 'bound': 'Semaphore: %d post(s) (%s) against %d wait(s) in another thread, at most %d preemptions' % (posts, 'post(n)' if mode else 'single posts', posts, B)})
    for nw in ((1, 2) if q else (1, 2, 3)):
        out.append({'entry': 'h_cond', 'params': [B if nw < 3 else 2, nw], 'bound': 'Condition under the documented mutex protocol: %d waiter(s), one signaller, at most %d preemptions' % (nw, B if nw < 3 else 2)})
    for n, nth in (((5, 3),) if q else ((5, 3), (8, 4), (3, 2))):
        out.append({'entry': 'h_parfor_functor', 'params': [2 if q else 3, n, nth], 'bound': 'parallel_for(0, %d, function object, %d threads), at most %d preemptions' % (n, nth, 2 if q else 3)})
    out.append({'entry': 'h_functor2', 'params': [B], 'bound': 'two function-object Threads of the same type started back to back, at most %d preemptions' % B})
    out.append({'entry': 'h_lambda2', 'params': [B], 'bound': 'two lambda Threads of the same closure type started back to back, at most %d preemptions' % B})
    return out


BOUNDS = {'quick': 'up to 2 subclassed/group threads, lambda threads with empty/one-step/multi-step bodies, parallel_invoke 2-4, parallel_for with symbolic i0, i1, thread count (ranges to 12, 5 threads without preemption; to 3 with preemption), Semaphore 1-2 posts, Condition 1 waiter; schedules: every interleaving of the visible operations (volatile/atomic accesses, pthread/sem calls, thread exit) with at most 2 preemptive switches',
          'thorough': 'up to 3 threads, 3 preemptions, parallel_for over the whole stated range -3..40 x 1..12 threads on the hand-over schedule'}
OUTSIDE = ['data races between plain (non-volatile, non-atomic) accesses: between two visible operations a thread runs atomically and memory is sequentially consistent',
           'schedules with more preemptions than the bound', 'weak memory effects (visibility after join relies on pthread_join being a synchronisation point)',
           'pthread primitives themselves (mutex, semaphore, condition, create/join are the model in engine/threads_sym.py)', 'Windows/Apple implementations']
ASSUMPTIONS = ['threads = engine/threads_sym.py (coroutines, schedule choices are recorded decisions)', 'pthread_create never fails']
