SOURCES = ['Var.cpp', 'String.cpp']
HARNESS = 'h_c04.cpp'
ENV = ['vlibc.c']
ALL = 1023
ALL13 = 8191


def instances(tier):
    q = tier == 'quick'
    out = []
    K = {0: 'int', 1: 'bool', 2: 'inline string', 3: '8-byte string', 4: '20-byte string', 5: 'double', 6: 'array', 7: 'object', 8: 'nested array', 9: 'null', 10: 'none'}
    triples = [(0, 6, 7), (4, 6, 8), (2, 3, 5), (7, 8, 10), (1, 9, 6)] if q else [(0, 6, 7), (4, 6, 8), (2, 3, 5), (7, 8, 10), (1, 9, 6), (3, 7, 7), (6, 6, 2), (5, 8, 0), (10, 10, 4)]
    for t in triples:
        out.append({'entry': 'h_hist', 'params': [1, t[0], t[1], t[2], ALL], 'bound': '1 symbolic op (10 kinds, any operand pair) on Vars holding %s / %s / %s' % (K[t[0]], K[t[1]], K[t[2]])})
    for t in ([(0, 6, 7), (3, 8, 10)] if q else [(0, 6, 7), (3, 8, 10), (4, 7, 6), (2, 6, 8)]):
        out.append({'entry': 'h_hist', 'params': [2, t[0], t[1], t[2], ALL & ~(1 << 7)], 'bound': '2 symbolic ops (no fresh-value op) on Vars holding %s / %s / %s' % (K[t[0]], K[t[1]], K[t[2]])})
    if not q:
        out.append({'entry': 'h_hist', 'params': [3, 0, 6, 7, 0b1001001111], 'bound': '3 ops from {assign, own element, own property, element assign, clone, remove}'})
    out.append({'entry': 'h_hist', 'params': [1, 2, 6, 8, ALL13], 'bound': '1 symbolic op of all 13 kinds on inline string / array / nested array'})
    out.append({'entry': 'h_hist', 'params': [2, 8, 10, 0, (1 << 6) | (1 << 12) | (1 << 0)], 'bound': '2 ops from {assign, clone, nested-container mutation} on a nested array / none / int'})
    out.append({'entry': 'h_hist', 'params': [2, 2, 6, 7, (1 << 10) | (1 << 11) | (1 << 8)], 'bound': '2 ops from {direct string assignment of length 0/3/7/8/9/20, direct scalar assignment, compare}'})
    out.append({'entry': 'h_convert', 'params': [], 'bound': 'ints in (-100000, 100000)'})
    return out


BOUNDS = {'quick': 'one symbolic operation from 5 triples of start values covering every Var kind (int, bool, double, null, none, strings of 3/8/20 bytes with a symbolic byte, array, object, nested array) and two operations from 2 triples; operations: assign (incl. to own element/property), element/property assignment with auto-creation, append, clone, fresh value, comparison, remove',
          'thorough': 'more start triples, 2-op histories from 4 triples, one 3-op family'}
OUTSIDE = ['assignments that make a container contain itself (excluded by the property)', 'growth of an array shared between Vars beyond its capacity (C01 known finding)', 'trees deeper than 2', 'toString of doubles (libc %g)']
ASSUMPTIONS = ['reference model shares containers between Vars after assignment (reference semantics, as documented) and deep-copies on clone()']
