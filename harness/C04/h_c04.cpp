// C04 harness: Var against a reference value model with JavaScript-like sharing of containers
#include <asl/Var.h>
#include "vp.h"
using namespace asl;

enum { T_NONE, T_NUL, T_INT, T_BOOL, T_NUM, T_STR, T_ARR, T_OBJ };
struct RV { int tag; int i; double d; char s[24]; int c; };
struct RC { int n; RV el[5]; char key[5][4]; };
static RC pool[24]; static int npool;

static int newc() { pool[npool].n = 0; return npool++; }
static RV rnone() { RV r; r.tag = T_NONE; r.i = 0; r.d = 0; r.s[0] = 0; r.c = -1; return r; }
static RV rdeep(const RV& a)
{
	RV r = a;
	if (a.tag == T_ARR || a.tag == T_OBJ) { r.c = newc(); RC& d = pool[r.c]; const RC& s = pool[a.c]; d.n = s.n; for (int i = 0; i < s.n; i++) { d.el[i] = rdeep(s.el[i]); memcpy(d.key[i], s.key[i], 4); } }
	return r;
}
static bool req(const RV& a, const RV& b)
{
	bool na = a.tag == T_INT || a.tag == T_NUM, nb = b.tag == T_INT || b.tag == T_NUM;
	if (na || nb) { if (!(na && nb)) return false; double x = a.tag == T_INT ? a.i : a.d, y = b.tag == T_INT ? b.i : b.d; return x == y; }
	if (a.tag != b.tag) return false;
	switch (a.tag) {
	case T_NUL: return true;
	case T_BOOL: return a.i == b.i;
	case T_STR: return strcmp(a.s, b.s) == 0;
	case T_ARR: { const RC& x = pool[a.c]; const RC& y = pool[b.c]; if (x.n != y.n) return false; for (int i = 0; i < x.n; i++) if (!req(x.el[i], y.el[i])) return false; return true; }
	case T_OBJ: { const RC& x = pool[a.c]; const RC& y = pool[b.c]; if (x.n != y.n) return false; for (int i = 0; i < x.n; i++) if (strcmp(x.key[i], y.key[i]) || !req(x.el[i], y.el[i])) return false; return true; }
	}
	return false;
}
static int rfind(const RC& o, const char* k) { for (int i = 0; i < o.n; i++) if (!strcmp(o.key[i], k)) return i; return -1; }
static RV& rset(RC& o, const char* k)     // sorted insert (ordered map)
{
	int i = rfind(o, k); if (i >= 0) return o.el[i];
	int p = 0; while (p < o.n && strcmp(o.key[p], k) < 0) p++;
	for (int j = o.n; j > p; j--) { o.el[j] = o.el[j - 1]; memcpy(o.key[j], o.key[j - 1], 4); }
	o.n++; strcpy(o.key[p], k); o.el[p] = rnone(); return o.el[p];
}

static void check(const Var& v, const RV& r, int depth)
{
	switch (r.tag) {
	case T_NONE: vp_assert(v.type() == Var::NONE && !v.ok(), "NONE reported"); break;
	case T_NUL: vp_assert(v.type() == Var::NUL, "NUL reported"); break;
	case T_INT: vp_assert(v.type() == Var::INT && (int)v == r.i && v.is(Var::NUMBER), "int type and value reported"); break;
	case T_BOOL: vp_assert(v.type() == Var::BOOL && (bool)v == (r.i != 0), "bool type and value reported"); break;
	case T_NUM: vp_assert(v.is(Var::NUMBER) && (double)v == r.d, "number type and value reported"); break;
	case T_STR: vp_assert(v.type() == Var::STRING && v.is(Var::STRING) && strcmp(*v, r.s) == 0 && v.length() == (int)strlen(r.s), "string type, text and length reported"); break;
	case T_ARR: { const RC& c = pool[r.c]; vp_assert(v.type() == Var::ARRAY && v.length() == c.n, "array type and length reported");
		if (depth < 3) for (int i = 0; i < c.n && i < v.length(); i++) check(v[i], c.el[i], depth + 1); break; }
	case T_OBJ: { const RC& c = pool[r.c]; vp_assert(v.type() == Var::OBJ && v.length() == c.n, "object type and size reported");
		if (depth < 3) for (int i = 0; i < c.n; i++) { vp_assert(v.has(c.key[i]), "object has its keys"); check(v[c.key[i]], c.el[i], depth + 1); } break; }
	}
}

static char lastch() { char c = (char)nondet_u8(); vp_assume(c != 0); return c; }
// fresh value of a given kind, built in both worlds
static void fresh(int kind, Var& v, RV& r)
{
	r = rnone();
	switch (kind) {
	case 0: { int x = (int)nondet_u32(); v = x; r.tag = T_INT; r.i = x; break; }
	case 1: { bool b = nondet_bool() != 0; v = b; r.tag = T_BOOL; r.i = b; break; }
	case 2: { char t[8] = "ab"; t[2] = lastch(); t[3] = 0; v = (const char*)t; r.tag = T_STR; strcpy(r.s, t); break; }              // inline (3 < 8)
	case 3: { char t[12] = "abcdefg"; t[7] = lastch(); t[8] = 0; v = String(t); r.tag = T_STR; strcpy(r.s, t); break; }             // 8 bytes: first heap size
	case 4: { char t[24] = "abcdefghijklmnopqrs"; t[19] = lastch(); t[20] = 0; v = (const char*)t; r.tag = T_STR; strcpy(r.s, t); break; }
	case 5: { double d = nondet_f64(); vp_assume(d == d); v = d; r.tag = T_NUM; r.d = d; break; }
	case 6: { int x = (int)nondet_u32(); Var a; a << x << "xyz"; v = a; r.tag = T_ARR; r.c = newc(); RC& c = pool[r.c]; c.n = 2; c.el[0] = rnone(); c.el[0].tag = T_INT; c.el[0].i = x; c.el[1] = rnone(); c.el[1].tag = T_STR; strcpy(c.el[1].s, "xyz"); break; }
	case 7: { int x = (int)nondet_u32(); Var o; o["k"] = x; o["s"] = "abcdefgh"; v = o; r.tag = T_OBJ; r.c = newc(); RC& c = pool[r.c];
		RV& a = rset(c, "k"); a.tag = T_INT; a.i = x; RV& b = rset(c, "s"); b.tag = T_STR; strcpy(b.s, "abcdefgh"); break; }
	case 8: { Var in; in << 1; Var o; o["k"] = 2; Var a; a << in << o; v = a; r.tag = T_ARR; r.c = newc(); int ci = newc(), co = newc();
		pool[ci].n = 1; pool[ci].el[0] = rnone(); pool[ci].el[0].tag = T_INT; pool[ci].el[0].i = 1;
		RV& k = rset(pool[co], "k"); k.tag = T_INT; k.i = 2;
		RC& c = pool[r.c]; c.n = 2; c.el[0] = rnone(); c.el[0].tag = T_ARR; c.el[0].c = ci; c.el[1] = rnone(); c.el[1].tag = T_OBJ; c.el[1].c = co; break; }
	case 9: { v = Var::NUL; r.tag = T_NUL; break; }
	default: { v = Var(); break; }
	}
}
static bool scalar(const RV& r) { return r.tag != T_ARR && r.tag != T_OBJ; }

// p0 = number of ops, p1/p2/p3 = kinds of the three initial values, p4 = op mask
extern "C" void h_hist(void)
{
	int nops = vp_param(0), mask = vp_param(4);
	npool = 0;
	{
		Var x[3]; RV r[3];
		for (int i = 0; i < 3; i++) fresh(vp_param(1 + i), x[i], r[i]);
		for (int i = 0; i < 3; i++) check(x[i], r[i], 0);
		for (int s = 0; s < nops; s++) {
			int op = vp_concretize(vp_range(0, 12));
			vp_assume((mask >> op) & 1);
			int a = vp_concretize(vp_range(0, 2)), b = vp_concretize(vp_range(0, 2));
			switch (op) {
			case 0: x[a] = x[b]; r[a] = r[b]; break;                                             // containers become shared
			case 1: { vp_assume(r[a].tag == T_ARR && pool[r[a].c].n > 0); int i = vp_concretize(vp_range(0, pool[r[a].c].n - 1));
				RV e = pool[r[a].c].el[i]; x[a] = x[a][i]; r[a] = e; break; }                          // assign own element
			case 2: { vp_assume(r[a].tag == T_OBJ && pool[r[a].c].n > 0); int i = vp_concretize(vp_range(0, pool[r[a].c].n - 1));
				RV e = pool[r[a].c].el[i]; const char* k = pool[r[a].c].key[i]; x[a] = x[a][k]; r[a] = e; break; }   // assign own property
			case 3: { vp_assume(a != b && r[a].tag == T_ARR && scalar(r[b])); RC& c = pool[r[a].c]; vp_assume(c.n > 0); int i = vp_concretize(vp_range(0, c.n - 1));
				x[a][i] = x[b]; c.el[i] = r[b]; break; }
			case 4: { vp_assume(a != b && (r[a].tag == T_OBJ || r[a].tag == T_NONE) && scalar(r[b])); const char* k = nondet_bool() ? "k" : "z";
				if (r[a].tag == T_NONE) { r[a].tag = T_OBJ; r[a].c = newc(); }
				vp_assume(pool[r[a].c].n < 4);
				x[a][k] = x[b]; rset(pool[r[a].c], k) = r[b]; break; }
			case 5: { vp_assume(a != b); vp_assume((r[a].tag == T_ARR && pool[r[a].c].n < 3) || r[a].tag == T_NONE); vp_assume(scalar(r[b]));
				if (r[a].tag == T_NONE) { r[a].tag = T_ARR; r[a].c = newc(); }
				x[a] << x[b]; RC& c = pool[r[a].c]; c.el[c.n++] = r[b]; break; }
			case 6: x[a] = x[b].clone(); r[a] = rdeep(r[b]); break;
			case 7: { int k = vp_concretize(vp_range(0, 10)); Var t; RV tr; fresh(k, t, tr); x[a] = t; r[a] = tr; break; }
			case 8: { bool e = x[a] == x[b]; vp_assert(e == req(r[a], r[b]), "operator== agrees with the value model");
				vp_assert((x[b] == x[a]) == e, "operator== is symmetric");
				vp_assert((x[a] == x[a]) == req(r[a], r[a]), "a value equals itself (unless it is or contains an undefined Var)");
				vp_assert((x[a] != x[b]) == !e, "operator!= is the negation"); break; }
			case 10: { // direct assignment of a C string / String of a boundary length to whatever x[a] holds
				static const int LEN[6] = { 0, 3, 7, 8, 9, 20 };
				int L = LEN[vp_concretize(vp_range(0, 5))]; char t[24]; for (int i = 0; i < L; i++) t[i] = 'a' + i; if (L) t[L - 1] = lastch(); t[L] = 0;
				if (nondet_bool()) x[a] = (const char*)t; else x[a] = String(t);
				r[a] = rnone(); r[a].tag = T_STR; strcpy(r[a].s, t);
				{ Var f(t); vp_assert(x[a] == f && f == x[a] && !(x[a] != f), "a Var re-assigned a text in place equals a freshly built Var with the same text"); }
				break; }
			case 11: { // direct assignment of scalars
				int k = vp_concretize(vp_range(0, 3)); r[a] = rnone();
				if (k == 0) { int v = (int)nondet_u32(); x[a] = v; r[a].tag = T_INT; r[a].i = v; }
				else if (k == 1) { bool v = nondet_bool() != 0; x[a] = v; r[a].tag = T_BOOL; r[a].i = v; }
				else if (k == 2) { unsigned v = nondet_u32(); x[a] = v; if (v < 2147483648u) { r[a].tag = T_INT; r[a].i = (int)v; } else { r[a].tag = T_NUM; r[a].d = v; } }
				else { float f = 1.5f; x[a] = f; r[a].tag = T_NUM; r[a].d = f; }
				break; }
			case 12: { // mutation of a nested container (second level)
				vp_assume(r[a].tag == T_ARR && scalar(r[b]) && a != b); RC& c = pool[r[a].c]; vp_assume(c.n > 0);
				int i = vp_concretize(vp_range(0, c.n - 1)); RV& e = c.el[i];
				vp_assume(e.tag == T_ARR || e.tag == T_OBJ); RC& ic = pool[e.c];
				if (e.tag == T_ARR) { vp_assume(ic.n > 0); x[a][i][0] = x[b]; ic.el[0] = r[b]; }
				else { x[a][i][String("k")] = x[b]; rset(ic, "k") = r[b]; }
				break; }
			case 9: { if (r[a].tag == T_ARR) { RC& c = pool[r[a].c]; vp_assume(c.n > 0); int i = vp_concretize(vp_range(0, c.n - 1)); x[a].removeAt(i); for (int j = i; j + 1 < c.n; j++) c.el[j] = c.el[j + 1]; c.n--; }
				else { vp_assume(r[a].tag == T_OBJ); RC& c = pool[r[a].c]; vp_assume(c.n > 0); int i = vp_concretize(vp_range(0, c.n - 1)); x[a].remove(c.key[i]);
					for (int j = i; j + 1 < c.n; j++) { c.el[j] = c.el[j + 1]; memcpy(c.key[j], c.key[j + 1], 4); } c.n--; } break; }
			}
			for (int i = 0; i < 3; i++) check(x[i], r[i], 0);
		}
		vp_note(r[0].tag);
	}
	vp_reach(1);
}

// conversions and toString: int/string/bool -> String -> text
extern "C" void h_convert(void)
{
	int x = (int)nondet_u32(); vp_assume(x > -100000 && x < 100000);
	Var v = x;
	String s = v.toString();
	vp_assert((int)strlen(*s) == s.length(), "toString consistent");
	vp_assert(myatoi(*s) == x, "toString of an int reads back");
	Var t = s;
	vp_assert((int)t == x, "string Var converts to the int it spells");
	Var b = (x & 1) != 0;
	vp_assert(b.toString() == ((x & 1) ? "true" : "false"), "toString of bool");
	Var u = (unsigned)x;
	vp_assert(x < 0 ? u.type() == Var::NUMBER : (u.type() == Var::INT && (int)u == x), "unsigned above INT_MAX becomes a double");
	vp_reach(2);
}
