SOURCES = ['Xdl.cpp', 'Var.cpp', 'String.cpp']
HARNESS = 'h_c06.cpp'
ENV = ['vlibc.c']


def instances(tier):
    q = tier == 'quick'
    out = []
    for n in ((0, 1, 2) if q else (0, 1, 2, 3)):
        out.append({'entry': 'h_any', 'params': [n], 'bound': 'every NUL-free byte string of length %d, every 2-chunk cut' % n})
    for nt, sp, al in ([(1, 0, 29), (2, 0, 29), (3, 0, 12), (1, 1, 29), (2, 1, 8)] if q else [(1, 0, 29), (2, 0, 29), (3, 0, 29), (4, 0, 10), (1, 1, 29), (2, 1, 16), (3, 1, 7)]):
        out.append({'entry': 'h_tokens', 'params': [nt, sp, al], 'bound': 'every sequence of %d token(s) from the first %d of the token table%s, every 2-chunk cut, every proper prefix' % (nt, al, ' with one arbitrary byte spliced at any position' if sp else '')})
    for nd in (0, 1, 8, 9, 10, 11, 15):
        for fill in (0, 1):
            for tail in ((0, 1) if q else (0, 1, 2, 3)):
                out.append({'entry': 'h_number', 'params': [nd, fill, tail], 'bound': 'number literals: optional minus, any leading digit, %d %ss, tail form %d' % (nd, '9' if fill else '0', tail)})
    for w in (0, 1):
        out.append({'entry': 'h_layout', 'params': [w], 'bound': 'document %d with every choice of two gaps and whitespace separators (space, LF, TAB CR LF)' % w})
    for d, o in ((1, 0), (8, 0), (64, 0), (512, 0), (8, 1), (64, 1)) if q else ((1, 0), (8, 0), (64, 0), (512, 0), (600, 0), (8, 1), (64, 1), (512, 1)):
        out.append({'entry': 'h_nest', 'params': [d, o], 'opts': {'maxsteps': 20000000}, 'bound': '%s nested %d deep around any digit' % ('objects' if o else 'arrays', d)})
    for kl in ((1, 15, 16, 17) if q else (1, 7, 8, 14, 15, 16, 17, 24, 33)):
        for xdl in (0, 1):
            out.append({'entry': 'h_longkey', 'params': [kl, xdl], 'bound': 'object with one member whose name has %d characters, first and last symbolic (%s)' % (kl, 'XDL' if xdl else 'JSON')})
    out.append({'entry': 'h_escape', 'params': [0], 'bound': 'string with a backslash followed by every byte'})
    out.append({'entry': 'h_escape', 'params': [1], 'bound': 'string with \\u 00 followed by every 2 characters from hex digits, g and the quote'})
    return out


BOUNDS = {'quick': 'raw bytes: every string of length <= 2; token strings: all sequences of up to 2 tokens from a 24-token table (3 from the first 12), plus one arbitrary spliced byte; all 2-chunk cuts and all proper prefixes of accepted documents; nesting to 512',
          'thorough': 'raw bytes to length 3, token sequences to length 4'}
OUTSIDE = ['raw byte strings longer than 3', 'token sequences longer than 4', '3-or-more-chunk partitions', 'documents whose strings exceed 23 bytes or containers 6 entries (reference parser limits)']
ASSUMPTIONS = ['independent parser = harness/common/rvmodel.h', 'atof/strtod on number text = libc (concrete evaluation after forking over symbolic digit bytes)']
