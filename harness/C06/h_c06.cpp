// C06 harness: JSON/XDL decoding is total, memory-safe, chunk-independent and accepts strict JSON
#include <asl/Xdl.h>
#include <asl/JSON.h>
#include "vp.h"
#include "../common/rvmodel.h"
using namespace asl;
static double todouble(const char* s) { return atof(s); }

static void both(const char* t, int n)
{
	// whole
	Var whole = Json::decode(t);
	// two chunks at a symbolic cut (every cut position)
	int k = vp_concretize(vp_range(0, n));
	char a[48], b[48];
	memcpy(a, t, k); a[k] = 0; memcpy(b, t + k, n - k); b[n - k] = 0;
	XdlParser p;
	p.parse(a); p.parse(b); p.parse(" ");
	Var parts = p.value();
	vp_assert(whole.ok() == parts.ok(), "feeding the text in two chunks accepts/rejects like feeding it whole");
	if (whole.ok()) vp_assert(Json::encode(whole) == Json::encode(parts), "chunked parse yields the same value");
	// conformance against the independent strict parser
	npool = 0;
	RV r;
	bool strict = jparse(t, r, todouble);
	if (strict) {
		vp_assert(whole.ok(), "every strict JSON document is accepted");
		vp_assert(vmatch(whole, r), "and yields the same value as the independent parser");
		if (r.tag == T_ARR || r.tag == T_OBJ || r.tag == T_STR) {
			// every prefix that stops before the final closing character is rejected
			int last = n - 1; while (last > 0 && (t[last] == ' ' || t[last] == '\n' || t[last] == '\t' || t[last] == '\r')) last--;
			int cut = vp_concretize(vp_range(1, last));
			char pre[48]; memcpy(pre, t, cut); pre[cut] = 0;
			Var pv = Json::decode(pre);
			vp_assert(!pv.ok(), "a prefix ending before the final closing character is rejected");
		}
	}
	vp_note(whole.ok()); vp_note(strict);
}

// p0 = length: every NUL-free byte string of that length
extern "C" void h_any(void)
{
	int n = vp_param(0);
	char* t = (char*)malloc(n + 1);
	for (int i = 0; i < n; i++) { t[i] = (char)nondet_u8(); vp_assume(t[i] != 0); }
	t[n] = 0;
	both(t, n);
	Var x = Xdl::decode(t);     // XDL entry point (same parser, separate wrapper)
	(void)x;
	free(t);
	vp_reach(1);
}

static const char* const TOK[] = { "{", "}", "[", "]", ",", ":", "\"a\"", "\"\\\\\"", "\"\xc3\xa9\"", "1", "-0", "1.5e3", "123456789012", "true", "null", " ", "\n", "\"\\u00e9\"", "=", "Y", "a", "/**/", "//\n", "\"\\ud83d\\ude00\"", "-3000000000", "-2147483648", "2147483647", "0.5", "1E-2" };
#define NTOK 29
// p0 = number of tokens, p1 = 1: splice one fully symbolic byte at a symbolic position, p2 = token alphabet size (first p2 tokens)
extern "C" void h_tokens(void)
{
	int nt = vp_param(0), splice = vp_param(1), alpha = vp_param(2);
	char t[48]; int n = 0;
	int sp = splice ? vp_concretize(vp_range(0, nt)) : -1;
	for (int i = 0; i <= nt; i++) {
		if (i == sp) { t[n] = (char)nondet_u8(); vp_assume(t[n] != 0); n++; }
		if (i == nt) break;
		int k = vp_concretize(vp_range(0, alpha - 1));
		int l = (int)strlen(TOK[k]); memcpy(t + n, TOK[k], l); n += l;
	}
	t[n] = 0;
	both(t, n);
	vp_reach(2);
}

// numbers: optional '-', a symbolic leading digit, p0 further digits (9s or 0s by p1), optional fraction/exponent (p2): both parsers agree
extern "C" void h_number(void)
{
	int nd = vp_param(0), fill = vp_param(1), tail = vp_param(2);
	char t[40]; int n = 0;
	if (nondet_bool()) t[n++] = '-';
	t[n] = (char)nondet_u8(); vp_assume(t[n] >= '1' && t[n] <= '9'); n++;
	for (int i = 0; i < nd; i++) t[n++] = fill ? '9' : '0';
	static const char* const TAIL[4] = { "", ".25", "e2", ".5E-3" };
	int l = (int)strlen(TAIL[tail]); memcpy(t + n, TAIL[tail], l); n += l;
	t[n] = 0;
	both(t, n);
	vp_reach(4);
}

// layout: a fixed valid document with symbolic separators ("", " ", "\n", "\t\r\n") in two symbolic gaps between its tokens
extern "C" void h_layout(void)
{
	static const char* const DOC[2][14] = { { "{", "\"a\"", ":", "1", ",", "\"b\"", ":", "[", "2", ",", "3", "]", "}", 0 }, { "[", "{", "\"k\"", ":", "true", "}", ",", "-1.5e3", ",", "null", ",", "\"s\"", "]", 0 } };
	static const char* const SEP[4] = { "", " ", "\n", "\t\r\n" };
	int which = vp_param(0);
	int g1 = vp_concretize(vp_range(0, 13)), g2 = vp_concretize(vp_range(g1, 13));
	int s1 = vp_concretize(vp_range(1, 3)), s2 = vp_concretize(vp_range(0, 3));
	char t[64]; int n = 0;
	for (int i = 0; i <= 13; i++) {
		const char* sep = i == g1 ? SEP[s1] : i == g2 ? SEP[s2] : "";
		int l = (int)strlen(sep); memcpy(t + n, sep, l); n += l;
		if (i == 13) break;
		l = (int)strlen(DOC[which][i]); memcpy(t + n, DOC[which][i], l); n += l;
	}
	t[n] = 0;
	npool = 0; RV r;
	vp_assert(jparse(t, r, todouble), "layout variant is strict JSON (harness self-check)");
	Var whole = Json::decode(t);
	vp_assert(whole.ok(), "every strict JSON document is accepted (any whitespace layout)");
	vp_assert(vmatch(whole, r), "and yields the same value as the independent parser");
	vp_reach(5);
}

// nesting: p0 = depth: "[[[...1...]]]" and {"a":{"a":...}} documents
extern "C" void h_nest(void)
{
	int d = vp_param(0), obj = vp_param(1);
	static char t[4096]; int n = 0;
	for (int i = 0; i < d; i++) { if (obj) { memcpy(t + n, "{\"a\":", 5); n += 5; } else t[n++] = '['; }
	t[n++] = (char)nondet_u8(); vp_assume(t[n - 1] >= '0' && t[n - 1] <= '9');
	for (int i = 0; i < d; i++) t[n++] = obj ? '}' : ']';
	t[n] = 0;
	Var v = Json::decode(t);
	vp_assert(v.ok(), "nested document accepted");
	Var* p = &v; int depth = 0;
	while (p->is(obj ? Var::OBJ : Var::ARRAY)) { p = obj ? &(*p)[String("a")] : &(*p)[0]; depth++; }
	vp_assert(depth == d && (int)*p == t[obj ? 5 * d : d] - '0', "nesting depth and leaf preserved");
	vp_reach(3);
}

// member names around the 15/16-byte inline/heap boundary of String: p0 = key length (first and last character symbolic); p1 = 0 JSON / 1 XDL identifier key
extern "C" void h_longkey(void)
{
	int kl = vp_param(0), xdl = vp_param(1);
	char t[80]; char key[40]; int n = 0;
	t[n++] = '{'; if (!xdl) t[n++] = '"';
	for (int i = 0; i < kl; i++) {
		char c = (char)('a' + i % 26);
		if (i == 0 || i == kl - 1) { c = (char)nondet_u8(); vp_assume((c >= 'a' && c <= 'z') || (c >= 'A' && c <= 'Z') || c == '_'); }      // first and last character symbolic
		key[i] = c; t[n++] = c;
	}
	key[kl] = 0;
	if (!xdl) t[n++] = '"';
	t[n++] = xdl ? '=' : ':'; t[n++] = '7'; t[n++] = '}'; t[n] = 0;
	Var v = xdl ? Xdl::decode(t) : Json::decode(t);
	vp_assert(v.ok() && v.is(Var::DIC), "an object with one member decodes");
	vp_assert(v.length() == 1 && v.has(String(key)), "the member is stored under exactly the name given (names longer than the inline string capacity included)");
	vp_assert((int)v[String(key)] == 7, "the member has its value");
	vp_note(v.length());
	vp_reach(5);
}

// string escapes: "a\Xb" with X any byte, and "\u00HH" with symbolic last two digits: both parsers agree with the strict recogniser
extern "C" void h_escape(void)
{
	int mode = vp_param(0);
	char t[24]; int n = 0;
	t[n++] = '['; t[n++] = '"'; t[n++] = 'a'; t[n++] = '\\';
	if (mode == 0) { char c = (char)nondet_u8(); vp_assume(c != 0); t[n++] = c; }
	else { t[n++] = 'u'; t[n++] = '0'; t[n++] = '0'; for (int i = 0; i < 2; i++) { char c = (char)nondet_u8(); vp_assume((c >= '0' && c <= '9') || (c >= 'a' && c <= 'f') || (c >= 'A' && c <= 'F') || c == 'g' || c == '"'); t[n++] = c; } }
	t[n++] = 'b'; t[n++] = '"'; t[n++] = ']'; t[n] = 0;
	both(t, n);
	vp_reach(6);
}
