"""C20 (E-REAL): asl's matrix templates instantiated with a term-building scalar; z3 decides the QF_NRA identities on
every comparison path of the real code (pivot orders of solve_, branches of Matrix4::rotation)."""
import os, sys, subprocess, json, time, tempfile, shutil, re
from concurrent.futures import ThreadPoolExecutor
VERIF = os.path.dirname(os.path.dirname(os.path.dirname(os.path.abspath(__file__))))
REPO = os.environ.get('VERIF_REPO', '/repo')
Z3 = 'z3-new'


def claims(tier):
    q = tier == 'quick'
    c = [('inv3', 0, 0), ('inv3g', 0, 0), ('inv4', 0, 0), ('detmul3', 0, 0), ('detmul4', 0, 0), ('solve', 2, 0), ('solve', 3, 0), ('solvediv', 2, 0), ('solvediv', 2, 1), ('solvediv', 3, 0), ('solvediv', 3, 1), ('solvediv', 3, 2), ('lsq', 3, 2), ('quat', 0, 0)]
    if not q:
        c += [('lsq', 4, 2), ('quatmat', 0, 0)]      # solve n=4 and lsq 4x3 do not finish (z3 nlsat > 20 min per pivot path): outside the claim
    only = os.environ.get('C20_CLAIMS')          # development aid: restrict to e.g. 'solve:4:0,quatmat:0:0'
    if only:
        c = [x for x in c if '%s:%d:%d' % x in only.split(',')]
    return c


def run_query(text, timeout):
    """-> (feasible, claim, output, seconds).  The claim is first tried WITHOUT the path condition (an identity that holds
    for all reals holds on every path); only if that is not unsat is the path-specific query run."""
    lines = text.split('\n')
    nopc = [l for l in lines if not l.endswith('; path')]
    i = nopc.index('(push)'); del nopc[i:i + 3]
    feas_only = '\n'.join(lines[:lines.index('(push)')] + ['(check-sat)', 'ENDQUERY'])
    _, f1, _, t1 = run_z3(feas_only, min(timeout, 30), False)
    if f1 == 'unsat':
        return 'unsat', 'unsat', '', t1
    f0, c0, o0, t0 = run_z3('\n'.join(nopc), timeout, False)
    if c0 == 'unsat':
        return f1, 'unsat', o0, t0 + t1
    f2, c2, o2, t2 = run_z3(text, timeout, True)
    return (f2 if f2 in ('sat', 'unsat') else f1), c2, o2, t0 + t1 + t2


def run_z3(text, timeout, two):
    d = tempfile.mkdtemp(prefix='vp_c20_', dir=os.environ.get('VP_TMP', '/tmp'))
    try:
        f = d + '/q.smt2'
        body = text.replace('(check-sat)\nENDQUERY', '(check-sat)\n(get-model)')
        open(f, 'w').write('(set-logic QF_NRA)\n' + body + '\n')
        t0 = time.time()
        try:
            r = subprocess.run([Z3, '-T:%d' % timeout, f], stdout=subprocess.PIPE, stderr=subprocess.STDOUT, universal_newlines=True, timeout=timeout + 20)
            out = r.stdout
        except subprocess.TimeoutExpired:
            out = 'timeout\ntimeout\n'
        res = [l.strip() for l in out.split('\n') if l.strip() in ('sat', 'unsat', 'unknown', 'timeout')]
        if not two and len(res) == 1: res = ['sat', res[0]]
        while len(res) < 2: res.append('unknown')
        if '(error' in out and 'model is not available' not in out: res = ['unknown', 'unknown']
        return res[0], res[1], out, time.time() - t0
    finally:
        shutil.rmtree(d, ignore_errors=True)


def model_values(out, names):
    vals = {}
    for m in re.finditer(r'\(define-fun (\w+) \(\) Real\s+([^\n]+(?:\n\s+[^\n(]*)?)\)', out):
        vals[m.group(1)] = m.group(2).strip()
    def num(s):
        s = s.strip()
        try:
            s2 = s.replace('(', ' ( ').replace(')', ' ) ').split()
            def ev(toks):
                t = toks.pop(0)
                if t == '(':
                    op = toks.pop(0); args = []
                    while toks[0] != ')': args.append(ev(toks))
                    toks.pop(0)
                    if op == '-': return -args[0] if len(args) == 1 else args[0] - args[1]
                    if op == '/': return args[0] / args[1]
                    if op == 'root-obj': return 0.0
                    return args[0]
                return float(t.rstrip('?'))
            return ev(s2)
        except Exception:
            return 0.0
    return [num(vals.get(n, '0.0')) for n in names]


def main(a):
    tier = a.tier; prop = 'C20'; t_start = time.time()
    work = tempfile.mkdtemp(prefix='vp_C20_', dir='/tmp')
    os.environ['VP_TMP'] = work
    try:
        exe = work + '/h_c20'; rexe = work + '/h_c20_replay'
        for src, out in (('h_c20.cpp', exe), ('h_c20_replay.cpp', rexe)):
            r = subprocess.run(['g++', '-std=c++11', '-w', '-O1', '-DASL_STATIC', '-I' + REPO + '/include', '-I' + VERIF + '/engine', VERIF + '/harness/C20/' + src, '-o', out], stdout=subprocess.PIPE, stderr=subprocess.STDOUT, universal_newlines=True)
            if r.returncode:
                print('ENGINE-ERROR build failed:', r.stdout[-1500:]); return 3
        build_s = time.time() - t_start
        timeout = 120 if tier == 'quick' else 600
        # enumerate decision vectors per claim
        jobs = []
        results = []
        errors = []
        for (c, n, m) in claims(tier):
            todo = ['']; seen = set()
            while todo:
                pfx = todo.pop()
                if pfx in seen: continue
                seen.add(pfx)
                r = subprocess.run([exe, c, str(n), str(m)], stdout=subprocess.PIPE, stderr=subprocess.PIPE, universal_newlines=True, env=dict(os.environ, SYMREAL_DECISIONS=pfx))
                if r.returncode:
                    errors.append('%s %d %d prefix %s: harness exit %d %s' % (c, n, m, pfx, r.returncode, r.stderr[-200:])); continue
                text = r.stdout
                dm = re.search(r'DECISIONS (\S*) (\d+)', text)
                dec = dm.group(1) if dm and not dm.group(1).isdigit() or (dm and dm.group(1) and set(dm.group(1)) <= set('01')) else ''
                if dm and dm.group(2) and dm.group(1).isdigit() and not set(dm.group(1)) <= set('01'): dec = ''
                plen = len(pfx)
                for i in range(plen, len(dec)):
                    todo.append(dec[:i] + ('0' if dec[i] == '1' else '1'))
                body = text[text.index('\n', text.index('DECISIONS')) + 1:]
                names = re.findall(r'\(declare-const (\w+) Real\)', body)
                jobs.append({'claim': c, 'n': n, 'm': m, 'decisions': dec, 'text': body, 'vars': [x for x in names if not x.startswith('sq')]})
        def do(j):
            fe, cl, out, dt = run_query(j['text'], timeout)
            return j, fe, cl, out, dt
        with ThreadPoolExecutor(a.jobs) as ex:
            for j, fe, cl, out, dt in ex.map(do, jobs):
                results.append({'claim': j['claim'], 'n': j['n'], 'm': j['m'], 'path': j['decisions'], 'path_feasible': fe, 'negated_claim': cl, 'solver_s': round(dt, 2), '_out': out, '_vars': j['vars']})
        viol = []; undec = []
        os.makedirs(os.environ.get('VP_REPLAY_DIR', VERIF + '/replays') + '/C20', exist_ok=True)
        for r in results:
            if r['path_feasible'] == 'unsat': continue
            if r['negated_claim'] == 'sat':
                vals = model_values(r['_out'], r['_vars'])
                rr = subprocess.run([rexe, r['claim'], str(r['n']), str(r['m'])] + ['%.17g' % v for v in vals], stdout=subprocess.PIPE, stderr=subprocess.STDOUT, universal_newlines=True)
                r['native'] = 'assert' if rr.returncode == 99 else 'ok(%s)' % rr.stdout.strip()
                r['inputs'] = vals
                viol.append(r)
            elif r['negated_claim'] != 'unsat':
                undec.append(r)
        new = 0
        for r in viol:
            path = os.path.join(os.environ.get('VP_REPLAY_DIR', VERIF + '/replays'), 'C20', '%s_%d_%d_%s.json' % (r['claim'], r['n'], r['m'], r['path'] or 'x'))
            json.dump({'property': 'C20', 'claim': r['claim'], 'n': r['n'], 'm': r['m'], 'path': r['path'], 'values': r['inputs'], 'native': r['native']}, open(path, 'w'), indent=1)
            if r['native'] == 'assert':
                print("  %s(%d,%d) path %s: identity violated at %s (native residual check: %s)" % (r['claim'], r['n'], r['m'], r['path'], r['inputs'][:8], r['native']))
                print("VIOLATION property=C20 replay=%s" % path); new += 1
            else:
                print("UNCONFIRMED %s(%d,%d) path %s native=%s" % (r['claim'], r['n'], r['m'], r['path'], r['native']))
        feas = [r for r in results if r['path_feasible'] != 'unsat']
        discharged = [r for r in feas if r['negated_claim'] == 'unsat']
        ev = {'property_id': 'C20', 'tier': tier, 'seed': int(os.environ.get('VERIF_SEED', '0') or 0), 'level': 'proof',
              'coverage': {'obligations': len(feas), 'discharged': len(discharged),
                           'checker_cmd': '%s -T:%d <query.smt2>  (QF_NRA; one query per claim and per comparison path of the real template code)' % (Z3, timeout),
                           'trusted_base': ['z3 5.1 nlsat', 'engine/symreal.h (term-building scalar)', 'g++ template instantiation of the real asl headers'],
                           'samples': [{'claim': r['claim'], 'n': r['n'], 'm': r['m'], 'path_decisions': r['path'], 'path_feasible': r['path_feasible'], 'negated_claim': r['negated_claim'], 'solver_s': r['solver_s']} for r in results[:60]],
                           'paths_total': len(results), 'paths_infeasible': len([r for r in results if r['path_feasible'] == 'unsat']),
                           'undecided': [{'claim': r['claim'], 'n': r['n'], 'm': r['m'], 'path': r['path'], 'feasible': r['path_feasible'], 'claim_result': r['negated_claim']} for r in undec],
                           'functions_encoded': ['Matrix3_<T>::inverse/det/operator*', 'Matrix4_<T>::inverse/det/operator*/t/rotation', 'Matrix_<T>/solve/solve_/transposed', 'Quaternion_<T>::matrix'],
                           'bounds': 'exact identities over all reals; the only bound is the dimension: 3x3/4x4 inverse and determinant product, solve n=2,3 (thorough 4), least squares 3x2 (thorough 4x2, 4x3), quaternion<->matrix',
                           'outside_claim': ['floating-point residual clause', 'every conversion through sin/cos/atan2/acos (axis-angle, Euler orders): transcendental, not encodable', 'square systems larger than 3x3 and least-squares systems with more than 2 unknowns (z3 nlsat does not finish the 4x4 pivot paths within 20 min each)'],
                           'solver_time_s': round(sum(r['solver_s'] for r in results), 1), 'build_s': round(build_s, 1), 'engine_errors': errors[:5]},
              'assumptions': ['division is real division; divisors that vanish make the path infeasible only through the assumed nonsingularity (reference determinant != 0)', 'sqrt(x) = y with y>=0 and y*y=x'],
              'wall_s': round(time.time() - t_start, 1), 'violations': new}
        edir = os.environ.get('VP_EVIDENCE_DIR', VERIF + '/evidence'); os.makedirs(edir, exist_ok=True)
        json.dump(ev, open(edir + '/C20.json', 'w'), indent=1)
        print("C20 %s: %d claim paths (%d feasible), %d discharged, %d undecided, solver %.1fs, wall %.0fs" % (tier, len(results), len(feas), len(discharged), len(undec), sum(r['solver_s'] for r in results), time.time() - t_start))
        for u in undec[:8]: print("UNDECIDED", u['claim'], u['n'], u['m'], u['path'], u['path_feasible'], u['negated_claim'])
        for e in errors[:5]: print("ENGINE-ERROR", e)
        if new: return 1
        if errors or undec or any(r['native'] != 'assert' for r in viol): return 3
        return 0
    finally:
        shutil.rmtree(work, ignore_errors=True)
