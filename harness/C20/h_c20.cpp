// C20 harness (E-REAL): asl's Matrix3_/Matrix4_/Matrix_/Quaternion_ templates instantiated with the term-building
// scalar Sym; prints SMT-LIB (QF_NRA) queries for algebraic identities.  usage: h_c20 <claim> [size]
#include "symreal.h"
#include <math.h>
#include <asl/Matrix4.h>
#include <asl/Matrix3.h>
#include <asl/Matrix.h>
#include <asl/Quaternion.h>
using namespace asl;
typedef std::vector<std::string> SV;

static std::string eq(const Sym& a, const Sym& b) { return Sym::eqs(a, b); }
static std::string conj(const SV& v) { std::string s = "(and true"; for (size_t i = 0; i < v.size(); i++) s += " " + v[i]; return s + ")"; }
static Sym V(const char* p, int i, int j = -1) { char n[32]; if (j >= 0) snprintf(n, 32, "%s%d%d", p, i, j); else snprintf(n, 32, "%s%d", p, i); return Sym::var(n); }

template<class M, int N> static M symmat(const char* p) { M m; for (int i = 0; i < N; i++) for (int j = 0; j < N; j++) m(i, j) = V(p, i, j); return m; }
static Matrix4_<Sym> symmat4(const char* p) { Matrix4_<Sym> m = Matrix4_<Sym>::identity(); for (int i = 0; i < 4; i++) for (int j = 0; j < 4; j++) m(i, j) = V(p, i, j); return m; }
// Matrix3 represents 2D affine transformations: its product is only defined for matrices whose last row is (0 0 1)
static Matrix3_<Sym> symmat3(const char* p) { Matrix3_<Sym> m; for (int i = 0; i < 2; i++) for (int j = 0; j < 3; j++) m(i, j) = V(p, i, j); return m; }

// reference determinant by cofactor expansion along the first row (independent of asl's formulas)
static Sym refdet(const std::vector<std::vector<Sym> >& a)
{
	int n = (int)a.size();
	if (n == 1) return a[0][0];
	Sym d(0);
	for (int c = 0; c < n; c++) {
		std::vector<std::vector<Sym> > m;
		for (int i = 1; i < n; i++) { std::vector<Sym> row; for (int j = 0; j < n; j++) if (j != c) row.push_back(a[i][j]); m.push_back(row); }
		Sym t = a[0][c] * refdet(m);
		d = (c % 2) ? d - t : d + t;
	}
	return d;
}

int main(int argc, char** argv)
{
	std::string claim = argc > 1 ? argv[1] : "";
	int n = argc > 2 ? atoi(argv[2]) : 3, m = argc > 3 ? atoi(argv[3]) : 0;
	SV as, cl;
	if (claim == "inv4" || claim == "inv3") {
		bool four = claim == "inv4"; int N = four ? 4 : 3;
		std::vector<std::vector<Sym> > a(N, std::vector<Sym>(N)), r(N, std::vector<Sym>(N)), l(N, std::vector<Sym>(N));
		Sym det;
		if (four) { Matrix4_<Sym> M = symmat4("a"), I = M.inverse(), R = M * I, L = I * M; det = M.det(); for (int i = 0; i < N; i++) for (int j = 0; j < N; j++) { a[i][j] = M(i, j); r[i][j] = R(i, j); l[i][j] = L(i, j); } }
		else { Matrix3_<Sym> M = symmat3("a"), I = M.inverse(), R = M * I, L = I * M; det = M.det(); for (int i = 0; i < N; i++) for (int j = 0; j < N; j++) { a[i][j] = M(i, j); r[i][j] = R(i, j); l[i][j] = L(i, j); } }
		Sym rd = refdet(a);
		as.push_back("(not (= " + rd.n + " 0.0))");
		for (int i = 0; i < N; i++) for (int j = 0; j < N; j++) { cl.push_back(eq(r[i][j], Sym(i == j ? 1 : 0))); cl.push_back(eq(l[i][j], Sym(i == j ? 1 : 0))); }
		cl.push_back(eq(det, rd));
		sym_emit(claim.c_str(), as, conj(cl));
	}
	else if (claim == "inv3g") {      // general (projective) 3x3: inverse() and det() with the products formed explicitly (operator* is affine-only)
		Matrix3_<Sym> M; std::vector<std::vector<Sym> > a(3, std::vector<Sym>(3));
		for (int i = 0; i < 3; i++) for (int j = 0; j < 3; j++) { M(i, j) = V("a", i, j); a[i][j] = M(i, j); }
		Matrix3_<Sym> I = M.inverse();
		Sym rd = refdet(a);
		as.push_back("(not (= " + rd.n + " 0.0))");
		for (int i = 0; i < 3; i++) for (int j = 0; j < 3; j++) {
			Sym r(0), l(0);
			for (int k = 0; k < 3; k++) { r = r + a[i][k] * I(k, j); l = l + I(i, k) * a[k][j]; }
			cl.push_back(eq(r, Sym(i == j ? 1 : 0))); cl.push_back(eq(l, Sym(i == j ? 1 : 0)));
		}
		cl.push_back(eq(M.det(), rd));
		sym_emit("inv3g", as, conj(cl));
	}
	else if (claim == "detmul4" || claim == "detmul3") {
		Sym da, db, dab;
		if (claim == "detmul4") { Matrix4_<Sym> A = symmat4("a"), B = symmat4("b"); da = A.det(); db = B.det(); dab = (A * B).det(); }
		else { Matrix3_<Sym> A = symmat3("a"), B = symmat3("b"); da = A.det(); db = B.det(); dab = (A * B).det(); }
		sym_emit(claim.c_str(), as, eq(dab, da * db));
	}
	else if (claim == "solve") {      // square n x n: A x = b on every pivot path, for nonsingular A; divisors are nonzero on the path
		Matrix_<Sym> A(n, n), b(n, 1);
		std::vector<std::vector<Sym> > a(n, std::vector<Sym>(n));
		for (int i = 0; i < n; i++) { for (int j = 0; j < n; j++) { A(i, j) = V("a", i, j); a[i][j] = A(i, j); } b(i, 0) = V("b", i); }
		Sym rd = refdet(a);
		Matrix_<Sym> x = solve(A, b);
		as.push_back("(not (= " + rd.n + " 0.0))");
		for (int i = 0; i < n; i++) { Sym s(0); for (int j = 0; j < n; j++) s = s + a[i][j] * x(j, 0); cl.push_back(eq(s, V("b", i))); }
		sym_emit("solve", as, conj(cl));
	}
	else if (claim == "solvediv") {   // square n x n, nonsingular: the m-th distinct divisor (pivot) used on this pivot path is not zero
		Matrix_<Sym> A(n, n), b(n, 1);
		std::vector<std::vector<Sym> > a(n, std::vector<Sym>(n));
		for (int i = 0; i < n; i++) { for (int j = 0; j < n; j++) { A(i, j) = V("a", i, j); a[i][j] = A(i, j); } b(i, 0) = V("b", i); }
		Sym rd = refdet(a);
		Matrix_<Sym> x = solve(A, b);
		as.push_back("(not (= " + rd.n + " 0.0))");
		std::vector<std::string> dv;
		SymCtx& c = SymCtx::get();
		for (size_t i = 0; i < c.divisors.size(); i++) { bool have = c.divisors[i] == "1.0"; for (size_t k = 0; k < dv.size(); k++) if (dv[k] == c.divisors[i]) have = true; if (!have) dv.push_back(c.divisors[i]); }
		for (int k = 0; k < m && k < (int)dv.size(); k++) as.push_back("(not (= " + dv[k] + " 0.0))");
		sym_emit("solvediv", as, m < (int)dv.size() ? "(not (= " + dv[m] + " 0.0))" : "true");
	}
	else if (claim == "lsq") {        // n x m (n > m): normal equations A^T A x = A^T b
		Matrix_<Sym> A(n, m), b(n, 1);
		std::vector<std::vector<Sym> > a(n, std::vector<Sym>(m));
		for (int i = 0; i < n; i++) { for (int j = 0; j < m; j++) { A(i, j) = V("a", i, j); a[i][j] = A(i, j); } b(i, 0) = V("b", i); }
		std::vector<std::vector<Sym> > ata(m, std::vector<Sym>(m)); std::vector<Sym> atb(m);
		for (int i = 0; i < m; i++) { for (int j = 0; j < m; j++) { Sym s(0); for (int k = 0; k < n; k++) s = s + a[k][i] * a[k][j]; ata[i][j] = s; } Sym s(0); for (int k = 0; k < n; k++) s = s + a[k][i] * V("b", k); atb[i] = s; }
		Sym rd = refdet(ata);
		Matrix_<Sym> x = solve(A, b);
		as.push_back("(not (= " + rd.n + " 0.0))");
		for (int i = 0; i < m; i++) { Sym s(0); for (int j = 0; j < m; j++) s = s + ata[i][j] * x(j, 0); cl.push_back(eq(s, atb[i])); }
		sym_emit("lsq", as, conj(cl));
	}
	else if (claim == "quat") {       // unit quaternion -> matrix -> quaternion returns +-q (each of the four branches)
		Sym w = Sym::var("qw"), x = Sym::var("qx"), y = Sym::var("qy"), z = Sym::var("qz");
		Quaternion_<Sym> q(w, x, y, z);
		as.push_back("(= (+ (* qw qw) (* qx qx) (* qy qy) (* qz qz)) 1.0)");
		Matrix4_<Sym> M = q.matrix();
		Quaternion_<Sym> p = M.rotation();
		std::string same = "(and " + eq(p.w, w) + " " + eq(p.x, x) + " " + eq(p.y, y) + " " + eq(p.z, z) + ")";
		std::string neg = "(and " + eq(p.w, -w) + " " + eq(p.x, -x) + " " + eq(p.y, -y) + " " + eq(p.z, -z) + ")";
		sym_emit("quat", as, "(or " + same + " " + neg + ")");
	}
	else if (claim == "quatmat") {    // the matrix of a unit quaternion is orthonormal with determinant 1
		Sym w = Sym::var("qw"), x = Sym::var("qx"), y = Sym::var("qy"), z = Sym::var("qz");
		Quaternion_<Sym> q(w, x, y, z);
		as.push_back("(= (+ (* qw qw) (* qx qx) (* qy qy) (* qz qz)) 1.0)");
		Matrix4_<Sym> M = q.matrix(), P = M * M.t();
		for (int i = 0; i < 3; i++) for (int j = 0; j < 3; j++) cl.push_back(eq(P(i, j), Sym(i == j ? 1 : 0)));
		cl.push_back(eq(M.det(), Sym(1)));
		sym_emit("quatmat", as, conj(cl));
	}
	else { fprintf(stderr, "unknown claim\n"); return 2; }
	return 0;
}
