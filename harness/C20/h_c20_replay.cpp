// native replay for C20 counterexamples: evaluates the same identity with the double instantiation at the model's values
// usage: h_c20_replay <claim> <n> <m> v0 v1 ...   (values in declaration order of the matrix/vector/quaternion variables)
#include <asl/Matrix4.h>
#include <asl/Matrix3.h>
#include <asl/Matrix.h>
#include <asl/Quaternion.h>
#include <stdio.h>
#include <stdlib.h>
#include <math.h>
#include <string>
using namespace asl;
static double res = 0, scale = 1;
static void cmp(double a, double b) { double d = fabs(a - b); if (!(d <= res)) res = d; if (fabs(a) > scale) scale = fabs(a); if (fabs(b) > scale) scale = fabs(b); }
int main(int argc, char** argv)
{
	std::string claim = argv[1]; int n = atoi(argv[2]), m = atoi(argv[3]);
	double* v = new double[argc]; int nv = 0;
	for (int i = 4; i < argc; i++) v[nv++] = atof(argv[i]);
	if (claim == "inv4") { Matrix4_<double> M; for (int i = 0; i < 4; i++) for (int j = 0; j < 4; j++) M(i, j) = v[4 * i + j]; Matrix4_<double> I = M.inverse(), R = M * I, L = I * M;
		for (int i = 0; i < 4; i++) for (int j = 0; j < 4; j++) { cmp(R(i, j), i == j); cmp(L(i, j), i == j); } }
	else if (claim == "inv3") { Matrix3_<double> M; for (int i = 0; i < 2; i++) for (int j = 0; j < 3; j++) M(i, j) = v[3 * i + j]; Matrix3_<double> I = M.inverse(), R = M * I, L = I * M;
		for (int i = 0; i < 3; i++) for (int j = 0; j < 3; j++) { cmp(R(i, j), i == j); cmp(L(i, j), i == j); } }
	else if (claim == "inv3g") { Matrix3_<double> M; for (int i = 0; i < 3; i++) for (int j = 0; j < 3; j++) M(i, j) = v[3 * i + j]; Matrix3_<double> I = M.inverse();
		for (int i = 0; i < 3; i++) for (int j = 0; j < 3; j++) { double r = 0, l = 0; for (int k = 0; k < 3; k++) { r += M(i, k) * I(k, j); l += I(i, k) * M(k, j); } cmp(r, i == j); cmp(l, i == j); } }
	else if (claim == "detmul4") { Matrix4_<double> A, B; for (int i = 0; i < 4; i++) for (int j = 0; j < 4; j++) { A(i, j) = v[4 * i + j]; B(i, j) = v[16 + 4 * i + j]; } cmp((A * B).det(), A.det() * B.det()); }
	else if (claim == "detmul3") { Matrix3_<double> A, B; for (int i = 0; i < 2; i++) for (int j = 0; j < 3; j++) { A(i, j) = v[3 * i + j]; B(i, j) = v[6 + 3 * i + j]; } cmp((A * B).det(), A.det() * B.det()); }
	else if (claim == "solve" || claim == "solvediv" || claim == "lsq") { if (claim == "solvediv") claim = "solve"; int c = claim == "solve" ? n : m; Matrix_<double> A(n, c), b(n, 1); int k = 0;
		for (int i = 0; i < n; i++) { for (int j = 0; j < c; j++) A(i, j) = v[k++]; b(i, 0) = v[k++]; }
		Matrix_<double> x = solve(A, b);
		if (claim == "solve") { for (int i = 0; i < n; i++) { double s = 0; for (int j = 0; j < n; j++) s += A(i, j) * x(j, 0); cmp(s, b(i, 0)); } }
		else { for (int i = 0; i < m; i++) { double l = 0, r = 0; for (int j = 0; j < m; j++) { double ata = 0; for (int q = 0; q < n; q++) ata += A(q, i) * A(q, j); l += ata * x(j, 0); } for (int q = 0; q < n; q++) r += A(q, i) * b(q, 0); cmp(l, r); } } }
	else if (claim == "quat") { Quaternion_<double> q(v[0], v[1], v[2], v[3]); Quaternion_<double> p = q.matrix().rotation();
		double d1 = fabs(p.w - q.w) + fabs(p.x - q.x) + fabs(p.y - q.y) + fabs(p.z - q.z), d2 = fabs(p.w + q.w) + fabs(p.x + q.x) + fabs(p.y + q.y) + fabs(p.z + q.z); res = d1 < d2 ? d1 : d2; }
	else if (claim == "quatmat") { Quaternion_<double> q(v[0], v[1], v[2], v[3]); Matrix4_<double> M = q.matrix(), P = M * M.t(); for (int i = 0; i < 3; i++) for (int j = 0; j < 3; j++) cmp(P(i, j), i == j); cmp(M.det(), 1); }
	printf("residual %g scale %g\n", res, scale);
	return (res > 1e-6 * scale || res != res) ? 99 : 0;      // NaN (division by a zero pivot) is a failure
}
