// C05 harness: JSON / XDL encode -> decode round trip and strict-JSON conformance of the encoder output
#include <asl/Xdl.h>
#include <asl/JSON.h>
#include <float.h>
#include "vp.h"
#include "../common/rvmodel.h"
using namespace asl;

static double todouble(const char* s) { return atof(s); }
static const double DBL[] = { 0.1, 1e21, 123456789.125, DBL_MAX, 4.9406564584124654e-324, 1.0 / 3, -2.5e-7, 1e9, 5.0, -1.7976931348623157e308, 2.2250738585072014e-308, 1234567890123.0 };
static const float FLT[] = { 0.1f, 3.4028235e38f, 1.4e-45f, 16777216.0f, -7.5f, 1.17549435e-38f };

static void symstr(char* t, int n, bool ident)
{
	for (int i = 0; i < n; i++) { t[i] = (char)nondet_u8(); vp_assume(t[i] != 0); if (ident) vp_assume(t[i] >= 'a' && t[i] <= 'z'); }
	t[n] = 0;
}
static int symint(int digits, int neg)      // digits 0: any int with |x| < 100000; 10: INT_MIN / INT_MAX edges; else near 10^(d-1)
{
	int x = (int)nondet_u32();
	if (digits == 0) vp_assume(x > -100000 && x < 100000);
	else if (digits == 10) vp_assume(x >= 2147483647 - 20 || x <= -2147483647 - 1 + 20);
	else { int lo = 1; for (int i = 1; i < digits; i++) lo *= 10; int m = neg ? -x : x; vp_assume(m >= lo - 20 && m <= lo + 20 && m > 0); }
	return x;
}

// builds value number `kind` into v and its model into r
static void build(int kind, int a, int b, Var& v, RV& r, bool ident)
{
	r = rnone();
	switch (kind) {
	case 0: { int x = symint(a, b); v = x; r = rint(x); break; }
	case 1: { bool t = nondet_bool() != 0; v = t; r.tag = T_BOOL; r.i = t; break; }
	case 2: { char t[8]; symstr(t, a, false); v = (const char*)t; r = rstr(t); break; }
	case 3: { double d = DBL[a]; v = d; r.tag = T_NUM; r.d = d; break; }
	case 4: { float f = FLT[a]; v = f; r.tag = T_NUM; r.d = f; break; }
	case 5: { v = Var::NUL; r.tag = T_NUL; break; }
	case 6: { int x = (int)nondet_u32(); vp_assume(x > -1000 && x < 1000); char t[8]; symstr(t, a, false); Var arr; arr << x << (const char*)t; v = arr;
		r.tag = T_ARR; r.c = newc(); RC& c = pool[r.c]; c.n = 2; c.el[0] = rint(x); c.el[1] = rstr(t); break; }
	case 7: { char k[8]; symstr(k, a, ident); char t[8]; symstr(t, b, false); Var o; o[String(k)] = (const char*)t; o[String("n")] = 7; v = o;
		vp_assume(strcmp(k, "n") != 0);
		r.tag = T_OBJ; r.c = newc(); RC& c = pool[r.c]; c.n = 2; strcpy(c.key[0], k); c.el[0] = rstr(t); strcpy(c.key[1], "n"); c.el[1] = rint(7); break; }
	case 9: { double d = DBL[a]; Var arr; arr << d << 2; Var o; o[String("a")] = d; o[String("b")] = 7; o[String("c")] = arr; v = o;    // exponent-form numbers followed by other items
		int ca = newc(); pool[ca].n = 2; pool[ca].el[0] = rnone(); pool[ca].el[0].tag = T_NUM; pool[ca].el[0].d = d; pool[ca].el[1] = rint(2);
		r.tag = T_OBJ; r.c = newc(); RC& c = pool[r.c]; c.n = 3; strcpy(c.key[0], "a"); c.el[0] = rnone(); c.el[0].tag = T_NUM; c.el[0].d = d; strcpy(c.key[1], "b"); c.el[1] = rint(7);
		strcpy(c.key[2], "c"); c.el[2] = rnone(); c.el[2].tag = T_ARR; c.el[2].c = ca; break; }
	case 8: { Var inner; inner[String("b")] = "x"; Var arr; arr << 1 << inner << true; Var o; o[String("a")] = arr; o[String("e")] = Var(Var::ARRAY); o[String("o")] = Var(Var::OBJ); v = o;
		int ci = newc(); pool[ci].n = 1; strcpy(pool[ci].key[0], "b"); pool[ci].el[0] = rstr("x");
		int ca = newc(); pool[ca].n = 3; pool[ca].el[0] = rint(1); pool[ca].el[1] = rnone(); pool[ca].el[1].tag = T_OBJ; pool[ca].el[1].c = ci; pool[ca].el[2] = rnone(); pool[ca].el[2].tag = T_BOOL; pool[ca].el[2].i = 1;
		int ce = newc(), co = newc();
		r.tag = T_OBJ; r.c = newc(); RC& c = pool[r.c]; c.n = 3; strcpy(c.key[0], "a"); c.el[0] = rnone(); c.el[0].tag = T_ARR; c.el[0].c = ca;
		strcpy(c.key[1], "e"); c.el[1] = rnone(); c.el[1].tag = T_ARR; c.el[1].c = ce; strcpy(c.key[2], "o"); c.el[2] = rnone(); c.el[2].tag = T_OBJ; c.el[2].c = co; break; }
	}
}

// p0 = value kind, p1/p2 = kind arguments, p3 = mode (0 XDL, 1 XDL pretty, 2 JSON, 3 JSON pretty)
extern "C" void h_roundtrip(void)
{
	int kind = vp_param(0), mode = vp_param(3);
	bool json = mode >= 2, pretty = (mode & 1) != 0;
	npool = 0;
	Var v; RV r;
	build(kind, vp_param(1), vp_param(2), v, r, !json);
	String txt = json ? Json::encode(v, pretty ? Json::PRETTY : Json::NONE) : Xdl::encode(v, pretty ? Json::PRETTY : 0);
	vp_assert((int)strlen(*txt) == txt.length(), "encoded text consistent");
	Var back = json ? Json::decode(txt) : Xdl::decode(txt);
	vp_assert(back.ok(), "decode accepts the encoder's output");
	if (kind != 4)   // floats are printed with 9 digits: the decoded double need only convert back to the same float
		vp_assert(vmatch(back, r), "decode(encode(v)) has the same structure, keys, strings, booleans and numbers");
	else vp_assert(back.is(Var::NUMBER), "float decodes as a number");
	if (kind == 3) vp_assert(memcmp(&r.d, &DBL[vp_param(1)], 8) == 0 && (double)back == r.d, "double recovered bit for bit");
	if (kind == 4) vp_assert((float)(double)back == FLT[vp_param(1)], "float recovered exactly as a float");
	if (json) {
		RV p;
		bool ok = jparse(*txt, p, todouble);
		vp_assert(ok, "encoder output is accepted by an independent strict JSON parser");
		if (kind != 4) vp_assert(req(p, r), "strict JSON parser reads the same value");
		else vp_assert((p.tag == T_NUM && (float)p.d == FLT[vp_param(1)]) || (p.tag == T_INT && (float)p.i == FLT[vp_param(1)]), "strict JSON parser reads the same float");
	}
	vp_note(txt.length());
	vp_reach(1);
}

// write -> read through a file larger than the 16382-byte read chunk: a string with a control character (written as \u00XX)
// is placed so that the escape straddles the chunk boundary.  p0 = offset of the escape relative to the boundary (-8..+2),
// p1 = 0 JSON / 1 XDL; the control character and one neighbour are symbolic.
#include <asl/File.h>
extern "C" void h_file_chunk(void)
{
	int shift = vp_param(0), xdl = vp_param(1);
	byte ctl = nondet_u8(); vp_assume(ctl >= 1 && ctl < 32 && ctl != '\n' && ctl != '\r' && ctl != '\t' && ctl != '\f' && ctl != '\b');
	char nb = (char)nondet_u8(); vp_assume(nb >= 'a' && nb <= 'z');
	// document: ["<pad>", "<nb><ctl>z"] - the second string starts at about 16382 + shift
	int pad = 16382 + shift - 7;
	static char padbuf[16500];
	for (int i = 0; i < pad; i++) padbuf[i] = (char)('a' + i % 23);
	padbuf[pad] = 0;
	char tail[4] = { nb, (char)ctl, 'z', 0 };
	Var v; v << Var(padbuf) << Var(tail);
	const char* path = "big.json";
	bool ok = xdl ? Xdl::write(v, path) : Json::write(v, path);
	vp_assert(ok, "the file is written");
	Var r = xdl ? Xdl::read(path) : Json::read(path);
	vp_assert(r.ok() && r.is(Var::ARRAY) && r.length() == 2, "reading the file back gives an array of two strings");
	if (r.ok() && r.is(Var::ARRAY) && r.length() == 2)
	{
		vp_assert(r[0].is(Var::STRING) && r[0].toString().length() == pad, "the long string survives");
		String t = r[1].toString();
		vp_assert(t.length() == 3 && t[0] == nb && (byte)t[1] == ctl && t[2] == 'z', "a control character escaped across the read-chunk boundary is recovered");
	}
	vp_note(pad);
	vp_reach(9);
}
