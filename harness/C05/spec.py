SOURCES = ['Xdl.cpp', 'Var.cpp', 'String.cpp', 'File.cpp', 'TextFile.cpp']
HARNESS = 'h_c05.cpp'
ENV = ['vlibc.c', 'vstdio.c']
MODES = {0: 'XDL', 1: 'XDL pretty', 2: 'JSON', 3: 'JSON pretty'}


def instances(tier):
    q = tier == 'quick'
    out = []

    def add(kind, a, b, mode, what):
        out.append({'entry': 'h_roundtrip', 'params': [kind, a, b, mode], 'bound': '%s, %s' % (what, MODES[mode])})
    for mode in (0, 1, 2, 3):
        for d in ((1, 2, 3, 4, 6, 9, 10) if not q or mode == 2 else (4, 10)):
            for neg in (0, 1):
                add(0, d, neg, mode, 'every int within 20 of %s10^%d%s' % ('-' if neg else '', d - 1, ' / INT_MIN..INT_MAX edges' if d == 10 else ''))
        add(1, 0, 0, mode, 'both booleans')
        add(5, 0, 0, mode, 'null')
        for L in ((0, 1, 2) if q else (0, 1, 2, 3)):
            if mode in (0, 2) or L <= 1:
                add(2, L, 0, mode, 'every NUL-free string of %d byte(s) (control characters, quotes, backslash, /, DEL, >= 0x80)' % L)
        for i in range(12):
            if mode == 2 or i < 4: add(3, i, 0, mode, 'double #%d of the boundary table (DBL_MAX, denormal min, 0.1, 1e21, ...)' % i)
        for i in range(6):
            if mode == 2 or i < 2: add(4, i, 0, mode, 'float #%d of the boundary table' % i)
        add(6, 1, 0, mode, 'array [any int |x|<1000, any 1-byte string]')
        add(7, 1, 1, mode, 'object with a symbolic 1-byte key%s and 1-byte string value' % (' (identifier)' if mode < 2 else ''))
        if mode >= 2: add(7, 2, 0, mode, 'object with every 2-byte key')
        add(8, 0, 0, mode, 'nested object/array/empty containers')
        for i in (0, 1, 3, 4, 6):
            add(9, i, 0, mode, 'object and array holding boundary double #%d (exponent and plain forms) followed by further items' % i)
    out.append({'entry': 'h_roundtrip', 'params': [0, 0, 0, 2], 'opts': {'timeout_ms': 200000}, 'bound': 'every int with |x| < 100000, JSON'})
    for shift in ((-6, -4, -2, 0) if q else tuple(range(-9, 3))):
        for xdl in (0, 1):
            out.append({'entry': 'h_file_chunk', 'params': [shift, xdl], 'opts': {'maxsteps': 80000000}, 'bound': 'file of about 16.4 KB written and read back (%s): a string with a symbolic control character whose \\u00XX escape sits %d bytes from the 16382-byte read-chunk boundary' % ('XDL' if xdl else 'JSON', shift)})
    return out


BOUNDS = {'quick': 'ints: every |x|<100000 and every value within 20 of each power of ten and of INT_MIN/INT_MAX; strings and keys: every NUL-free byte string of length <= 2; 12 boundary doubles and 6 boundary floats (concrete); arrays/objects of depth <= 2; all four modes',
          'thorough': 'as quick with strings up to 3 bytes and all int edge classes in every mode'}
OUTSIDE = ['arbitrary doubles: printf("%.17g")/strtod are libc and are only exercised on a table of concrete boundary values (the text path between them is symbolic)',
           'Json::write/Xdl::write + read through files (16 KiB chunk boundaries need documents beyond reach)', 'strings longer than 3 bytes, trees deeper than 2']
ASSUMPTIONS = ['glibc %.17g/%.9g and strtod round-trip doubles/floats (trusted)', 'the independent strict JSON parser is harness/common/rvmodel.h (RFC 8259 recogniser + evaluator), executed symbolically in the same run']
