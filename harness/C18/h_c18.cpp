// C18 harness: IniFile and TabularDataFile persist exactly what was set / written (over the in-memory stdio model)
#include <asl/IniFile.h>
#include <asl/TextFile.h>
#include "vp.h"
using namespace asl;

// ---- reference model of an INI file: list of (section, key, value)
struct Ent { char sec[4], key[4], val[8]; };
struct Model { Ent e[12]; int n;
	int find(const char* s, const char* k) const { for (int i = 0; i < n; i++) if (!strcmp(e[i].sec, s) && !strcmp(e[i].key, k)) return i; return -1; }
	void set(const char* s, const char* k, const char* v) { int i = find(s, k); if (i < 0) { i = n++; strcpy(e[i].sec, s); strcpy(e[i].key, k); } strcpy(e[i].val, v); }
};
// line templates (section "s" is a proper prefix of section "st"): 0 "[s]" 1 "[st]" 2 "k=v" 3 "k2 = w" 4 "  n=1" 5 "#c" 6 ";d" 7 "" 8 "junk"
static const char* const LINE[9] = { "[s]", "[st]", "k=v", "k2 = w", "  n=1", "#c", ";d", "", "junk" };

// p0 = number of lines, p1 = number of set() calls, p2 = 1: write by destructor (else explicit write())
extern "C" void h_ini(void)
{
	int nl = vp_param(0), nset = vp_param(1), bydtor = vp_param(2);
	static char text[200]; int n = 0;
	Model m; m.n = 0;
	char cur[4] = "-";
	bool crlf = nondet_bool() != 0, finalnl = nondet_bool() != 0;
	int kinds[6];
	for (int i = 0; i < nl; i++) {
		int k = vp_concretize(vp_range(0, 8)); kinds[i] = k;
		int l = (int)strlen(LINE[k]); memcpy(text + n, LINE[k], l); n += l;
		if (i + 1 < nl || finalnl) { if (crlf) text[n++] = '\r'; text[n++] = '\n'; }
		if (k == 0) strcpy(cur, "s"); else if (k == 1) strcpy(cur, "st");
		else if (k == 2) m.set(cur, "k", "v"); else if (k == 3) m.set(cur, "k2", "w"); else if (k == 4) m.set(cur, "n", "1");
	}
	text[n] = 0;
	{ TextFile w("c.ini", File::WRITE); if (n > 0) w.write(String(text)); }
	{
		IniFile ini("c.ini");     // default: keeps the original lines and writes on destruction
		vp_assert(ini.ok(), "existing file opens");
		// every pre-existing value is read
		for (int i = 0; i < m.n; i++) {
			String name = String(m.e[i].sec); name += "/"; name += m.e[i].key;
			const IniFile& cini = ini;
			vp_assert(cini.has(name), "pre-existing key is read (with or without a final newline)");
			vp_assert(cini[name] == m.e[i].val, "pre-existing value is read");
		}
		static const char* const NAMES[4][2] = { { "s", "k" }, { "s", "z" }, { "u", "k" }, { "st", "n" } };
		for (int q = 0; q < nset; q++) {
			int w = vp_concretize(vp_range(0, 3));
			char v[4]; int vl = vp_concretize(vp_range(1, 2));
			for (int j = 0; j < vl; j++) { v[j] = (char)nondet_u8(); vp_assume(v[j] > 32 && v[j] < 127); }
			v[vl] = 0;
			{ String nm(NAMES[w][0]); nm += "/"; nm += NAMES[w][1]; ini.set(nm, String(v)); }
			m.set(NAMES[w][0], NAMES[w][1], v);
		}
		if (!bydtor) ini.write();
	}
	IniFile again("c.ini", false);
	if (nl > 0 || nset > 0) vp_assert(again.ok(), "written file opens");
	const IniFile& c2 = again;
	for (int i = 0; i < m.n; i++) {
		String name = String(m.e[i].sec); name += "/"; name += m.e[i].key;
		vp_assert(c2.has(name), "after writing, a fresh IniFile has every key that was set or was there before");
		vp_assert(c2[name] == m.e[i].val, "after writing, every value is the one set / the untouched original");
	}
	// comment lines keep their relative order
	if (nset > 0) {
		String out = TextFile("c.ini").text();
		int seen = -1;
		for (int i = 0; i < nl; i++) if (kinds[i] == 5 || kinds[i] == 6) {
			int at = out.indexOf(LINE[kinds[i]], seen + 1);
			vp_assert(at > seen, "comment lines survive in their original relative order");
			seen = at;
		}
	}
	vp_note(m.n);
	vp_reach(1);
}

// ---- CSV: rows read back equal rows written, cell for cell
#include <asl/TabularDataFile.h>
// p0 = rows, p1 = cols (2..3): each cell is symbolically a small int, an empty string or a 1-2 byte string over {a , ; " ' space}
extern "C" void h_csv(void)
{
	int rows = vp_param(0), cols = vp_param(1), nsymc = vp_param(2), firstsym = vp_param(3);   // cells [firstsym, firstsym+nsymc) are symbolic, the rest alternate 7 / "x y"
	static const char AL[6] = { 'a', ',', ';', '"', '\'', ' ' };
	int kind[9]; int iv[9]; char sv[9][4];
	{
		TabularDataFile f("t.csv");
		f.columns(cols == 1 ? "c0" : cols == 2 ? "c0,c1" : "c0,c1,c2");
		for (int r = 0; r < rows; r++) for (int c = 0; c < cols; c++) {
			int i = r * cols + c;
			if (i < firstsym || i >= firstsym + nsymc) { if (i & 1) { kind[i] = 2; strcpy(sv[i], "x y"); f << Var("x y"); } else { kind[i] = 0; iv[i] = 7; f << Var(7); } continue; }
			kind[i] = vp_concretize(vp_range(0, 2));
			if (kind[i] == 0) { static const int IV[5] = { 0, 7, -3, 42, -99 }; iv[i] = IV[vp_concretize(vp_range(0, 4))]; f << Var(iv[i]); }   // numbers are concrete (the number text path is libc/pow based)
			else if (kind[i] == 1) { sv[i][0] = 0; f << Var(""); }
			else { int l = vp_concretize(vp_range(1, 2)); for (int q = 0; q < l; q++) sv[i][q] = AL[vp_concretize(vp_range(0, 5))]; sv[i][l] = 0; f << Var((const char*)sv[i]); }
		}
	}
	TabularDataFile g("t.csv");
	Array<Array<Var> > d = g.data();
	vp_assert(d.length() == rows, "number of rows read equals rows written");
	for (int r = 0; r < rows && r < d.length(); r++) {
		vp_assert(d[r].length() == cols, "number of cells per row");
		for (int c = 0; c < cols && c < d[r].length(); c++) {
			int i = r * cols + c; const Var& v = d[r][c];
			if (kind[i] == 0) vp_assert(v.is(Var::NUMBER) && (int)v == iv[i], "integer cell read back");
			else vp_assert(v.is(Var::STRING) && strcmp(*v, sv[i]) == 0, "string cell (separators, quotes, spaces, empty) read back");
		}
	}
	vp_reach(2);
}
