SOURCES = ['IniFile.cpp', 'TabularDataFile.cpp', 'Var.cpp', 'File.cpp', 'TextFile.cpp', 'String.cpp', 'unicodedata.cpp']
HARNESS = 'h_c18.cpp'
ENV = ['vlibc.c', 'vstdio.c']


def instances(tier):
    q = tier == 'quick'
    out = []
    for nl, ns, dt in ([(0, 1, 0), (1, 0, 0), (1, 1, 1), (2, 0, 0), (2, 1, 0), (2, 1, 1), (3, 0, 0)] if q else [(0, 1, 0), (0, 2, 1), (1, 0, 0), (1, 1, 1), (1, 2, 0), (2, 0, 0), (2, 1, 0), (2, 1, 1), (2, 2, 0), (3, 0, 0), (3, 1, 1), (4, 0, 0)]):
        out.append({'entry': 'h_ini', 'params': [nl, ns, dt], 'bound': 'every INI text of %d line(s) from 9 templates (sections, entries, indented, comments, blank, junk), LF/CRLF, with/without final newline; %d set() call(s) on 4 names with 1-2 symbolic printable value bytes; written %s' % (nl, ns, 'on destruction' if dt else 'explicitly')})
    for p in ([1, 2, 2, 0], [1, 3, 2, 1], [2, 2, 2, 1], [2, 2, 1, 3], [3, 1, 2, 0], [3, 1, 1, 1]) if q else ([1, 2, 2, 0], [1, 3, 2, 0], [1, 3, 2, 1], [2, 2, 2, 0], [2, 2, 2, 1], [2, 2, 2, 2], [3, 2, 2, 3], [3, 1, 2, 0], [3, 1, 2, 1], [4, 1, 2, 1]):
        out.append({'entry': 'h_csv', 'params': p, 'bound': 'CSV table %dx%d with %d symbolic cell(s) starting at cell %d: each a number, an empty string or a 1-2 character string over {a , ; " \' space}' % tuple(p)})
    return out


BOUNDS = {'quick': 'INI: all texts of up to 3 template lines (2 with a set() call), both line endings, with/without final newline; CSV: tables up to 2x2 / 1x3 with 2 symbolic cells',
          'thorough': 'INI texts to 4 lines and 2 set() calls; CSV to 3x2'}
OUTSIDE = ['up to 20 set() calls / tables 30x8', 'non-integer numbers (written with %.15g: libc) and symbolic integers in CSV cells (number text goes through pow/atof)', 'ARFF output']
ASSUMPTIONS = ['stdio = env/vstdio.c', 'CSV number cells are taken from a small concrete set']
