SOURCES = ['File.cpp', 'TextFile.cpp', 'String.cpp']
HARNESS = 'h_c17.cpp'
ENV = ['vlibc.c', 'vstdio.c']


def instances(tier):
    q = tier == 'quick'
    out = []
    for n in ((0, 1, 3, 6) if q else (0, 1, 2, 3, 6, 10)):
        for v in (0, 1, 2, 3, 4):
            out.append({'entry': 'h_bytes', 'params': [n, v], 'bound': 'every byte array of length %d, write variant %d (put / write+append+reopen / stream operators / one object queried, reopened, closed, queried / queried while open for writing)' % (n, v)})
    for k, ns, tail in ([(0, 0, 0), (0, 1, 0), (0, 2, 0), (0, 3, 1), (1, 3, 0), (251, 3, 1), (252, 3, 1), (253, 3, 0), (253, 3, 1), (254, 3, 1), (255, 2, 1), (256, 2, 0), (507, 3, 1), (508, 3, 1), (509, 2, 1)] if q else
                        [(0, 0, 0), (0, 1, 0), (0, 2, 0), (0, 3, 0), (0, 4, 1), (1, 4, 0), (250, 4, 1), (251, 4, 1), (252, 4, 1), (253, 4, 0), (253, 4, 1), (254, 4, 1), (255, 3, 1), (256, 3, 0), (506, 4, 1), (507, 4, 1), (508, 4, 1), (509, 3, 1), (510, 3, 1)]):
        out.append({'entry': 'h_lines', 'params': [k, ns, tail], 'bound': 'text = %d filler chars + every %d NUL-free bytes%s (LF, CRLF, lone CR, no final newline; 254/255-char fgets chunk edge)' % (k, ns, ' + "\\nz"' if tail else '')})
    for k in ((0, 1, 2) if q else (0, 1, 2, 3)):
        for enc in (0, 1, 2):
            out.append({'entry': 'h_bom', 'params': [k, enc], 'bound': 'every sequence of %d scalar value(s) (no CR) in %s with byte-order mark' % (k, ('UTF-8', 'UTF-16LE', 'UTF-16BE')[enc])})
    out.append({'entry': 'h_nobom', 'params': [], 'bound': 'every 3 NUL-free bytes that are not a byte-order mark, followed by "xy"'})
    return out


BOUNDS = {'quick': 'byte contents of 0..6 symbolic bytes through three write paths; texts of k filler chars + 2-3 symbolic bytes with k in {0,1,251..256,507..509}; BOM files of 0-2 scalar values in three encodings',
          'thorough': 'bytes to 10, 4 symbolic text bytes, 3 scalar values'}
OUTSIDE = ['real file systems and sizes beyond 4096 bytes (the 65536-byte copy block, 16 MiB)', 'Directory::copy / move', 'CR characters inside UTF-16 BOM files (CRLF is folded to LF by text())']
ASSUMPTIONS = ['stdio = env/vstdio.c (fopen/fread/fwrite/fgets/fseek/ftell/feof/stat over in-memory files, ISO C semantics); native replays use real files']
