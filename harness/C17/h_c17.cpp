// C17 harness: File / TextFile return exactly the bytes, text and lines that were written
// (symbolically: over the in-memory stdio model env/vstdio.c; natively: real files in the replay's temp directory)
#include <asl/File.h>
#include <asl/TextFile.h>
#include "vp.h"
using namespace asl;

// p0 = size, p1 = variant: 0 put/content, 1 write in two pieces + append + reopen, 2 stream operators, 3 one object queried/reopened/closed/queried, 4 queried while open for writing
extern "C" void h_bytes(void)
{
	int n = vp_param(0), variant = vp_param(1);
	byte d[16];
	for (int i = 0; i < n; i++) d[i] = nondet_u8();
	ByteArray data(d, n);
	const char* path = "f.bin";
	if (variant == 0) { File f(path); vp_assert(f.put(data), "put succeeds"); }
	else if (variant == 1) {
		int k = vp_concretize(vp_range(0, n));
		{ File f(path, File::WRITE); vp_assert(f.write(d, k) == k, "write returns the count"); }
		{ File f(path, File::APPEND); vp_assert(f.write(d + k, n - k) == n - k, "append write returns the count"); }
	} else if (variant == 4) {
		// metadata queried while the file is open for writing, more written through the same object, then closed
		int k = vp_concretize(vp_range(0, n));
		File f(path, File::WRITE);
		vp_assert(f.write(d, k) == k, "write returns the count");
		(void)f.size(); (void)f.isFile();                    // (what these return while the stream is open is not constrained)
		vp_assert(f.write(d + k, n - k) == n - k, "second write returns the count");
		f.close();
		vp_assert(f.size() == n, "size() after close equals all the bytes written, also when it was queried in between");
		ByteArray c4 = f.content();
		vp_assert(c4.length() == n, "content() after close has all the bytes written");
		for (int i = 0; i < n && i < c4.length(); i++) vp_assert(c4[i] == d[i], "content() bytes after a query in between");
	} else if (variant == 3) {
		// one File object over its whole life: queried, reopened for appending, closed, queried again
		int k = vp_concretize(vp_range(0, n));
		{ File w(path, File::WRITE); w.write(d, k); }
		File f(path);
		vp_assert(f.size() == k && f.isFile(), "size() of the existing file");
		vp_assert(f.open(File::APPEND), "reopen for appending");
		vp_assert(f.write(d + k, n - k) == n - k, "append write returns the count");
		f.close();
		vp_assert(f.size() == n, "size() of the same object after write and close equals the bytes written");
		ByteArray c3 = f.content();
		vp_assert(c3.length() == n, "content() of the same object after write and close");
		for (int i = 0; i < n && i < c3.length(); i++) vp_assert(c3[i] == d[i], "content() bytes of the same object");
	} else {
		File f(path, File::WRITE);
		for (int i = 0; i < n; i++) f << d[i];
	}
	File g(path);
	vp_assert(g.size() == n, "size() equals the number of bytes written");
	ByteArray c = g.content();
	vp_assert(c.length() == n, "content() has the bytes written");
	for (int i = 0; i < n && i < c.length(); i++) vp_assert(c[i] == d[i], "content() bytes");
	int k2 = vp_concretize(vp_range(0, n));
	File h2(path);
	ByteArray fb = h2.firstBytes(k2);
	vp_assert(fb.length() == k2, "firstBytes(k) returns k bytes");
	for (int i = 0; i < k2 && i < fb.length(); i++) vp_assert(fb[i] == d[i], "firstBytes bytes");
	File r(path, File::READ);
	byte buf[20]; int got = r.read(buf, n + 3);
	vp_assert(got == n, "read() returns what is there");
	for (int i = 0; i < n; i++) vp_assert(buf[i] == d[i], "read() bytes");
	vp_note(c.length());
	vp_reach(1);
}

// reference: split at LF, remove one CR before each LF
static int ref_lines(const char* t, int n, int* start, int* len)
{
	int cnt = 0, s = 0;
	for (int i = 0; i <= n; i++) {
		if (i == n || t[i] == '\n') { int e = i; if (i < n && e > s && t[e - 1] == '\r') e--; start[cnt] = s; len[cnt] = e - s; cnt++; s = i + 1; }
	}
	return cnt;
}
// p0 = filler length (line chunk boundary is 254/255), p1 = symbolic bytes appended, p2 = 1: a further "\nz" tail
extern "C" void h_lines(void)
{
	int k = vp_param(0), nsym = vp_param(1), tail = vp_param(2);
	static char t[700]; int n = 0;
	for (int i = 0; i < k; i++) t[n++] = 'x';
	for (int i = 0; i < nsym; i++) { t[n] = (char)nondet_u8(); vp_assume(t[n] != 0); n++; }
	if (tail) { t[n++] = '\n'; t[n++] = 'z'; }
	t[n] = 0;
	// texts that start with a byte-order mark are decoded by text() (covered by h_bom): excluded here
	if (n >= 2) { byte b0 = (byte)t[0], b1 = (byte)t[1]; vp_assume(!((b0 == 0xFF && b1 == 0xFE) || (b0 == 0xFE && b1 == 0xFF) || (b0 == 0xEF && b1 == 0xBB))); }
	{ TextFile w("t.txt", File::WRITE); vp_assert(w.write(String(t)), "text written"); }
	TextFile f("t.txt");
	String all = f.text();
	vp_assert(all.length() == n && memcmp(*all, t, n) == 0, "text() returns the text written");
	static int st[8], ln[8];
	int cnt = ref_lines(t, n, st, ln);
	// a final newline yields a last empty line in the split; lines() reports it too, or drops it
	TextFile g("t.txt");
	Array<String> L = g.lines();
	bool endsnl = n > 0 && t[n - 1] == '\n';
	vp_assert(L.length() == cnt || (endsnl && L.length() == cnt - 1) || (n == 0 && L.length() <= 1), "lines() count");
	for (int i = 0; i < L.length() && i < cnt; i++) {
		vp_assert(L[i].length() == ln[i], "line length");
		vp_assert(memcmp(*L[i], t + st[i], ln[i]) == 0, "line bytes");
	}
	TextFile h2("t.txt", File::READ);
	String s1; h2.readLine(s1);
	if (n > 0) vp_assert(s1.length() == ln[0] && memcmp(*s1, t + st[0], ln[0]) == 0, "readLine returns the first line");
	vp_note(L.length());
	vp_reach(2);
}

static int u8enc(unsigned c, byte* o)
{
	if (c < 0x80) { o[0] = (byte)c; return 1; }
	if (c < 0x800) { o[0] = 0xC0 | (c >> 6); o[1] = 0x80 | (c & 63); return 2; }
	if (c < 0x10000) { o[0] = 0xE0 | (c >> 12); o[1] = 0x80 | ((c >> 6) & 63); o[2] = 0x80 | (c & 63); return 3; }
	o[0] = 0xF0 | (c >> 18); o[1] = 0x80 | ((c >> 12) & 63); o[2] = 0x80 | ((c >> 6) & 63); o[3] = 0x80 | (c & 63); return 4;
}
// p0 = number of scalar values, p1 = encoding (0 UTF-8 BOM, 1 UTF-16LE, 2 UTF-16BE)
extern "C" void h_bom(void)
{
	int k = vp_param(0), enc = vp_param(1);
	byte file[32]; int fl = 0; byte ref[16]; int rl = 0;
	if (enc == 0) { file[fl++] = 0xEF; file[fl++] = 0xBB; file[fl++] = 0xBF; } else if (enc == 1) { file[fl++] = 0xFF; file[fl++] = 0xFE; } else { file[fl++] = 0xFE; file[fl++] = 0xFF; }
	for (int i = 0; i < k; i++) {
		unsigned c = nondet_u32(); vp_assume(c >= 1 && c <= 0x10FFFF && !(c >= 0xD800 && c <= 0xDFFF) && c != '\r');
		rl += u8enc(c, ref + rl);
		if (enc == 0) fl += u8enc(c, file + fl);
		else {
			unsigned u[2]; int nu = 1; if (c < 0x10000) u[0] = c; else { unsigned v = c - 0x10000; u[0] = 0xD800 + (v >> 10); u[1] = 0xDC00 + (v & 0x3ff); nu = 2; }
			for (int q = 0; q < nu; q++) { if (enc == 1) { file[fl++] = u[q] & 255; file[fl++] = u[q] >> 8; } else { file[fl++] = u[q] >> 8; file[fl++] = u[q] & 255; } }
		}
	}
	fl = vp_concretize(fl); rl = vp_concretize(rl);
	{ File w("b.txt", File::WRITE); w.write(file, fl); }
	String s = TextFile("b.txt").text();
	vp_assert(s.length() == rl, "text() of a BOM file: UTF-8 length");
	for (int i = 0; i < rl && i < s.length(); i++) vp_assert((byte)(*s)[i] == ref[i], "text() of a BOM file: UTF-8 bytes");
	vp_reach(3);
}

// BOM-less text: every 3 NUL-free, CR-free bytes that are not one of the three byte-order marks, followed by "xy": text() returns the bytes unchanged
extern "C" void h_nobom(void)
{
	byte file[8]; int fl = 0;
	for (int i = 0; i < 3; i++) { byte c = nondet_u8(); vp_assume(c != 0 && c != '\r'); file[fl++] = c; }
	vp_assume(!(file[0] == 0xEF && file[1] == 0xBB && file[2] == 0xBF) && !(file[0] == 0xFF && file[1] == 0xFE) && !(file[0] == 0xFE && file[1] == 0xFF));
	file[fl++] = 'x'; file[fl++] = 'y';
	{ File w("n.txt", File::WRITE); w.write(file, fl); }
	String s = TextFile("n.txt").text();
	vp_assert(s.length() == fl, "text() of a file without byte-order mark has every byte (also when it starts like a mark)");
	for (int i = 0; i < fl && i < s.length(); i++) vp_assert((byte)(*s)[i] == file[i], "text() bytes of a BOM-less file");
	vp_note(s.length());
	vp_reach(5);
}
