// C14 harness: SocketServer accept loop, handler threads, stop(true) and destruction on the thread model
// (engine/threads_sym.py) over the listening-socket model (env/vsrv.c); natively the same harness talks to the server
// over real loopback TCP connections (env/vsrv_native.cpp).
#include <asl/SocketServer.h>
#include <asl/Socket.h>
#include <asl/Mutex.h>
#include "vp.h"
#include "vsrv.h"
#include <unistd.h>
#include <pthread.h>
using namespace asl;

static AtomicCount g_enter, g_exit;
static int g_served[8];
static Mutex g_mutex;
static Socket* g_keep[4]; static int g_nkeep, g_keepcopies;

struct Echo : public SocketServer
{
	void serve(Socket client)
	{
		++g_enter;
		if (g_keepcopies) { g_mutex.lock(); if (g_nkeep < 4) g_keep[g_nkeep++] = new Socket(client); g_mutex.unlock(); }   // the application keeps a handle
		byte t = 0;
		int n = client.read(&t, 1);
		if (n == 1)
		{
			g_mutex.lock(); if (t < 8) g_served[t]++; g_mutex.unlock();
			client.write(&t, 1);
		}
		vp_assert(client.handle() >= 0, "the socket passed to serve() is valid for the duration of the call");
		++g_exit;
	}
};

static void* run_blocking(void* p) { ((SocketServer*)p)->start(false); return 0; }     // scenario 4: the application's own thread runs the accept loop
static int g_late_h;
static void* late_closer(void*) { usleep(3500000); vp_cli_close(g_late_h); return 0; }   // native runs only: the silent client gives up after 3.5 s
// p0 = preemption budget, p1 = number of clients, p2 = sequential mode, p3 = bit mask of clients that close right after sending,
// p4 = scenario: 0 plain; 1 clients send nothing and close at once (silent); 2 serve() keeps a copy of its Socket;
//      3 one late client: stop(false), a while later stop(true) while its serve() is still waiting for the token;
//      4 the accept loop runs in a thread of the application (blocking start()), stop(true) comes from the controlling thread
extern "C" void h_server(void)
{
	vp_sched_budget(vp_param(0));
	int n = vp_param(1), seq = vp_param(2), early = vp_param(3), scen = vp_param(4);
	g_keepcopies = scen == 2; g_nkeep = 0;
	int h[4];
	int entered_at_stop;
	{
		Echo srv;
		srv.setSequential(seq != 0);
		bool ok = srv.bind("127.0.0.1", vp_srv_port());
		vp_assume(ok);
		pthread_t appthread; bool own = scen == 4;
		if (own)
		{
			pthread_create(&appthread, 0, run_blocking, (SocketServer*)&srv);
			for (int tries = 0; tries < 5000 && !srv.running(); tries++) usleep(1000);     // until the loop is up
			vp_assume(srv.running());
		}
		else srv.start(true);
		for (int i = 0; i < n; i++)
		{
			byte tok = (byte)i;
			h[i] = vp_cli_connect(&tok, (scen == 1 || scen == 3) ? 0 : 1);
			vp_assume(h[i] >= 0);
			if ((early & (1 << i)) || scen == 1) vp_cli_close(h[i]);
		}
		if (scen == 1 || scen == 3)
		{
			// let the accept loop pick the connections up before the stop request
			if (!vp_symbolic_run()) { for (int tries = 0; tries < 50 && (int)g_enter < n; tries++) usleep(100000); if (scen == 3) usleep(300000); }     // up to 5 s on a loaded machine
			else for (int tries = 0; tries < 20; tries++) { bool all = true; for (int i = 0; i < n; i++) if (!vp_srv_accepted(h[i])) all = false; if (all) break; usleep(1000); }
		}
		if (scen == 3)
		{
			pthread_t closer;
			if (!vp_symbolic_run()) { g_late_h = h[0]; pthread_create(&closer, 0, late_closer, 0); pthread_detach(closer); }
			srv.stop(false);
			if (!vp_symbolic_run()) usleep(2500000); else for (int k = 0; k < 6; k++) usleep(1000);     // the accept loop notices the request and ends
		}
		srv.stop(true);
		vp_assert(!srv.running(), "running() is false after stop(true)");
		if (own) pthread_join(appthread, 0);
		vp_assert((int)g_enter == (int)g_exit, "stop(true) returned while a serve() call was still in flight");
		entered_at_stop = g_enter;
		if (scen == 1)
		{
			int acc = 0; for (int i = 0; i < n; i++) acc += vp_srv_accepted(h[i]);       // (natively: every connection, the loop had time to accept them)
			vp_assert(entered_at_stop == acc, "every accepted connection was passed to serve() exactly once (also one whose peer closed without sending)");
		}
		if (scen == 2)
			for (int i = 0; i < n; i++) if (g_served[i] == 1)
				vp_assert(vp_srv_closed_by_server(h[i]), "the connection is closed after serve() returned (even when the application kept a Socket handle)");
		for (int i = 0; i < g_nkeep; i++) { delete g_keep[i]; g_keep[i] = 0; }
		g_nkeep = 0;
	}
	vp_assert((int)g_enter == entered_at_stop, "a serve() call started after stop(true) returned");
	int served = 0;
	for (int i = 0; i < n; i++)
	{
		vp_assert(g_served[i] <= 1, "a connection was passed to serve() more than once");
		served += g_served[i];
		byte r[4]; int k = vp_cli_recv(h[i], r, 4);
		if (g_served[i] == 1 && !(early & (1 << i)))
			vp_assert(k == 1 && r[0] == (byte)i, "the client of a served connection did not get its own token back");
		else
			vp_assert(k <= 1 && (k == 0 || r[0] == (byte)i), "a client received bytes that are not its own token");
		if (g_served[i] == 1)
			vp_assert(vp_srv_closed_by_server(h[i]), "the connection was not closed after serve() returned");
		vp_cli_close(h[i]);
	}
	vp_assert(served <= (int)g_enter && (int)g_enter <= n, "serve() ran for something that is not an accepted connection");
	if (!vp_symbolic_run()) usleep(400000);   // natively: let threads held at a schedule hook finish under the memory checker
	vp_note(n);
	vp_reach(1);
}
