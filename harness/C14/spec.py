SOURCES = ['SocketServer.cpp', 'Socket.cpp', 'String.cpp', 'unicodedata.cpp', 'util.cpp']
HARNESS = 'h_c14.cpp'
ENV = ['vlibc.c', 'vsrv.c']
NATIVE_EXTRA = ['vsrv_native.cpp']
NATIVE_DEFINES = ['-DASL_VERIF']
# native replays hold every thread for a moment between run() returning and the finished flag being written (guarded hook in
# Thread::begin), which is where the engine's counterexample schedules switch threads
NATIVE_ENV = {'VP_DELAY': 'Thread::begin:after-run=250'}
NATIVE_TIMEOUT = 30


def instances(tier):
    q = tier == 'quick'
    out = []
    for seq in (0, 1):
        mode = 'sequential' if seq else 'concurrent'
        for n, B in (((0, 2), (1, 2), (2, 1)) if q else ((0, 3), (1, 3), (2, 2), (3, 1))):
            for early in ((0, (1 << n) - 1) if n else (0,)):
                if q and n == 2 and early and seq: continue
                out.append({'entry': 'h_server', 'params': [B, n, seq, early, 0],
                            'bound': '%s server: start(true), %d client connection(s)%s, stop(true), destruction; every schedule with at most %d preemptions (free choice at blocking points)'
                            % (mode, n, ' that close right after sending' if early else '', B)})
    for seq in (0, 1):
        for scen, n, B, what in ((1, 1, 2, 'a client that connects, sends nothing and closes'), (1, 2, 1, 'two clients that connect, send nothing and close'), (2, 1, 2, 'serve() keeps a copy of its Socket'), (3, 1, 2, 'stop(false), later stop(true) while serve() still waits for its client'), (4, 1, 2, 'accept loop run by a thread of the application (blocking start()), stop(true) from the controlling thread')):
            if seq and scen in (3,): continue
            out.append({'entry': 'h_server', 'params': [B, n, seq, 0, scen], 'bound': '%s server, %s; at most %d preemptions' % ('sequential' if seq else 'concurrent', what, B)})
    return out


BOUNDS = {'quick': 'TCP server in concurrent and sequential mode, 0-2 client connections (each sends one token byte; all stay open or all close at once), start(true) / stop(true) / destructor; all interleavings of accept thread, handler threads and the controlling thread with at most 2 (2 clients: 1) preemptions at visible operations plus every choice at blocking points',
          'thorough': 'up to 3 clients, up to 3 preemptions'}
OUTSIDE = ['Unix-socket paths (LocalSocket::bind) and TLS', 'more than 3 connections, bursts of 200', 'real kernel sockets and the 2 s select timeout (sockets = env/vsrv.c; a timeout is a yield)',
           'races between plain accesses (the flags _requestStop/_running are plain bools: a thread runs atomically between visible operations)', 'stop(false) followed by destruction without waiting']
ASSUMPTIONS = ['threads = engine/threads_sym.py; pthread_cancel is deferred to the next blocking call', 'sockets = env/vsrv.c', 'natively the harness uses real loopback TCP connections (env/vsrv_native.cpp)']
