SOURCES = ['Xml.cpp', 'String.cpp']
HARNESS = 'h_c07.cpp'
ENV = ['vlibc.c']


def instances(tier):
    q = tier == 'quick'
    out = []
    for n in ((0, 1, 2, 3) if q else (0, 1, 2, 3, 4)):
        out.append({'entry': 'h_any', 'params': [n], 'bound': 'every NUL-free byte string of length %d' % n})
    for nt, sp, al in ([(1, 0, 28), (2, 0, 28), (3, 0, 28), (4, 0, 9), (2, 1, 12)] if q else [(1, 0, 28), (2, 0, 28), (3, 0, 28), (4, 0, 14), (5, 0, 8), (2, 1, 28), (3, 1, 10)]):
        out.append({'entry': 'h_tokens', 'params': [nt, sp, al], 'bound': 'every sequence of %d token(s) from the first %d of the XML token table%s' % (nt, al, ' + one arbitrary spliced byte' if sp else '')})
    for shape in (0, 1, 2, 3):
        for nb in ((1,) if q and shape else (1, 2)):
            for fmt in (0, 1):
                if fmt and shape == 2: continue          # indented output is only claimed when text is a sole child
                out.append({'entry': 'h_roundtrip', 'params': [shape, nb, fmt], 'bound': 'DOM shape %d with every %d-byte attribute value / text (& < > quotes, non-ASCII ...), %s output' % (shape, nb, 'indented' if fmt else 'compact')})
    for dec, nd, at in ([(0, 5, 0), (0, 5, 1), (1, 7, 1), (0, 2, 0), (1, 3, 0)] if q else [(0, 5, 0), (0, 6, 0), (0, 6, 1), (1, 7, 0), (1, 7, 1), (0, 2, 0), (1, 3, 0), (0, 4, 1)]):
        out.append({'entry': 'h_charref', 'params': [dec, nd, at], 'bound': 'numeric character reference with every %d %s digit(s) in %s' % (nd, 'decimal' if dec else 'hexadecimal', 'an attribute value' if at else 'element text')})
    return out


BOUNDS = {'quick': 'raw bytes to length 3; all sequences of up to 3 tokens from a 28-token XML table (4 from 9), one spliced arbitrary byte; 4 DOM shapes to depth 3 with 1-2 symbolic bytes per attribute value / text node; numeric character references with every 5 hex / 7 decimal digits',
          'thorough': 'raw bytes to length 4; token sequences to 5; 2 symbolic bytes everywhere'}
OUTSIDE = ['DOM trees deeper than 3 / more than 3 children', 'documents longer than 5 tokens', 'raw strings longer than 4 bytes', 'Xml::read/write through files']
ASSUMPTIONS = ['__dynamic_cast modelled over the type-info objects clang emitted (single inheritance)']
