// C07 harness: XML decoding is total/safe with consistent parent links; encode -> decode preserves the tree
#include <asl/Xml.h>
#include "vp.h"
using namespace asl;

// every child's parent() is the element that contains it (walk of the returned tree); returns node count
static int walk(const Xml& e, int depth)
{
	int n = 1;
	vp_assert(depth < 40, "tree depth bounded by the input");
	for (int i = 0; i < e.numChildren(); i++) {
		Xml c = e.child(i);
		vp_assert(!c.isnull(), "children are non-null nodes");
		vp_assert(c.parent() == e, "every child's parent() is the element that contains it");
		if (!c.isText()) n += walk(c, depth + 1); else n++;
	}
	return n;
}

static void decode_check(const char* t)
{
	Xml x = Xml::decode(t);
	if (!x.isnull() && (bool)x) {
		vp_assert(!x.isText(), "the root is an element");
		{ Xml up = x.parent(); vp_assert(up.isnull() || !(bool)up, "the root of a decoded document has no parent (documented: null for the root)"); }
		int n = walk(x, 0);
		vp_note(n);
	} else vp_note(0);
}

// p0 = length: every NUL-free byte string
extern "C" void h_any(void)
{
	int n = vp_param(0);
	char* t = (char*)malloc(n + 1);
	for (int i = 0; i < n; i++) { t[i] = (char)nondet_u8(); vp_assume(t[i] != 0); }
	t[n] = 0;
	decode_check(t);
	free(t);
	vp_reach(1);
}

static const char* const TOK[] = { "<a", "<b", ">", "/>", "</a>", "</b>", "</>", " b=\"", " c='", "\"", "'", "x", " ", "&amp;", "&#x41;", "&#65;", "&#;", "&q;", "&", "<!--", "--", "-->", "<?p ?>", "<?xml?>", "<!D[", "]>", "<", "<?xml v" };
#define NTOK 28
// p0 = tokens, p1 = splice a symbolic byte, p2 = alphabet size
extern "C" void h_tokens(void)
{
	int nt = vp_param(0), splice = vp_param(1), alpha = vp_param(2);
	char t[96]; int n = 0;
	int sp = splice ? vp_concretize(vp_range(0, nt)) : -1;
	for (int i = 0; i <= nt; i++) {
		if (i == sp) { t[n] = (char)nondet_u8(); vp_assume(t[n] != 0); n++; }
		if (i == nt) break;
		int k = vp_concretize(vp_range(0, alpha - 1));
		int l = (int)strlen(TOK[k]); memcpy(t + n, TOK[k], l); n += l;
	}
	t[n] = 0;
	decode_check(t);
	vp_reach(2);
}

// ---- round trip: structural equality up to merging adjacent text and dropping whitespace-only text
static bool wsonly(const String& s) { for (int i = 0; i < s.length(); i++) { char c = s[i]; if (c != ' ' && c != '\n' && c != '\r' && c != '\t') return false; } return true; }
static bool same(const Xml& a, const Xml& b)
{
	if (a.tag() != b.tag()) return false;
	if (a.attribs().length() != b.attribs().length()) return false;
	foreach2(String& k, String& v, a.attribs()) { if (!b.attribs().has(k) || b.attribs()[k] != v) return false; }
	// normalised child lists
	int i = 0, j = 0;
	while (true) {
		String ta, tb; bool ha = false, hb = false;
		while (i < a.numChildren() && a.child(i).isText()) { ta += a.child(i).text(); i++; ha = true; }
		while (j < b.numChildren() && b.child(j).isText()) { tb += b.child(j).text(); j++; hb = true; }
		if (wsonly(ta)) ta = ""; if (wsonly(tb)) tb = "";
		(void)ha; (void)hb;
		if (ta != tb) return false;
		bool ea = i < a.numChildren(), eb = j < b.numChildren();
		if (ea != eb) return false;
		if (!ea) return true;
		if (!same(a.child(i), b.child(j))) return false;
		i++; j++;
	}
}
static String symtext(int n, bool noctl)
{
	char t[8];
	for (int i = 0; i < n; i++) { t[i] = (char)nondet_u8(); vp_assume(t[i] != 0); if (noctl) vp_assume(t[i] != '\r'); }
	t[n] = 0;
	return String(t);
}
// p0 = shape (0: <a k="V">T</a>; 1: <a><b k="V"/>T<c>U</c></a>; 2: <a>T<b/>U</a> (two texts); 3: depth 3 chain with attribute and text),
// p1 = symbolic bytes per text/attribute value, p2 = formatted output
extern "C" void h_roundtrip(void)
{
	int shape = vp_param(0), nb = vp_param(1), fmt = vp_param(2);
	Xml a("a");
	if (shape == 0) { a.setAttr("k", symtext(nb, false)); a << symtext(nb, false); }
	else if (shape == 1) { Xml b("b"); b.setAttr("k", symtext(nb, false)); a << b; if (!fmt) a << symtext(nb, false); Xml c("c"); c << symtext(nb, false); a << c; }
	else if (shape == 2) { a << symtext(nb, false); a << Xml("b"); a << symtext(nb, false); }
	else { Xml b("b"); Xml c("c:d"); c.setAttr("x-y", symtext(nb, false)); c << symtext(nb, false); b << c; a << b; a.setAttr("id", "1"); }
	String txt = Xml::encode(a, fmt != 0);
	vp_assert((int)strlen(*txt) == txt.length(), "encoded text consistent");
	Xml back = Xml::decode(txt);
	vp_assert(!back.isnull() && (bool)back, "decode accepts the encoder's output");
	vp_assert(same(a, back), "decode(encode(t)) has the same tags, attributes, child order and text");
	walk(back, 0);
	vp_note(txt.length());
	vp_reach(3);
}

// numeric character references: p0 = 0 hex / 1 decimal, p1 = number of digits, p2 = 0 in text / 1 in an attribute value
extern "C" void h_charref(void)
{
	int dec = vp_param(0), nd = vp_param(1), inattr = vp_param(2);
	char doc[48]; int n = 0;
	const char* pre = inattr ? "<a b=\"" : "<a>";
	while (*pre) doc[n++] = *pre++;
	doc[n++] = '&'; doc[n++] = '#'; if (!dec) doc[n++] = 'x';
	long long code = 0;
	for (int i = 0; i < nd; i++) {
		char c = (char)nondet_u8();
		if (dec) { vp_assume(c >= '0' && c <= '9'); code = code * 10 + (c - '0'); }
		else { vp_assume((c >= '0' && c <= '9') || (c >= 'a' && c <= 'f') || (c >= 'A' && c <= 'F')); code = code * 16 + (c <= '9' ? c - '0' : (c | 32) - 'a' + 10); }
		doc[n++] = c;
	}
	doc[n++] = ';';
	const char* post = inattr ? "\"/>" : "</a>";
	while (*post) doc[n++] = *post++;
	doc[n] = 0;
	Xml x = Xml::decode(doc);
	bool scalar = code >= 1 && code <= 0x10FFFF && !(code >= 0xD800 && code <= 0xDFFF);
	if (!inattr && code <= 32) scalar = false;      // white-space-only text is not kept as a text node
	if (scalar)
	{
		byte ref[5]; int rl;
		unsigned c = (unsigned)code;
		if (c < 0x80) { ref[0] = (byte)c; rl = 1; }
		else if (c < 0x800) { ref[0] = 0xC0 | (c >> 6); ref[1] = 0x80 | (c & 63); rl = 2; }
		else if (c < 0x10000) { ref[0] = 0xE0 | (c >> 12); ref[1] = 0x80 | ((c >> 6) & 63); ref[2] = 0x80 | (c & 63); rl = 3; }
		else { ref[0] = 0xF0 | (c >> 18); ref[1] = 0x80 | ((c >> 12) & 63); ref[2] = 0x80 | ((c >> 6) & 63); ref[3] = 0x80 | (c & 63); rl = 4; }
		vp_assert(!x.isnull() && (bool)x, "a document with a numeric character reference decodes");
		String got = inattr ? x["b"] : x.text();
		vp_assert(got.length() == rl, "a numeric character reference decodes to the UTF-8 form of its code point (length)");
		for (int i = 0; i < rl && i < got.length(); i++) vp_assert((byte)(*got)[i] == ref[i], "a numeric character reference decodes to the UTF-8 form of its code point (bytes)");
	}
	vp_note(scalar ? 1 : 0);
	vp_reach(4);
}
