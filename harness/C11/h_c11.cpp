// C11 harness: WebSocket framing in both directions against a reference RFC 6455 framer/deframer, and hostile frames
#include <asl/WebSocket.h>
#include <asl/Socket.h>
#include "vp.h"
#include "vsock.h"
using namespace asl;
typedef unsigned long long u64;

// reference RFC 6455 frame builder
static int ref_frame(byte* o, int opcode, bool fin, bool masked, const byte key[4], const byte* p, int n, int lenform)
{
	int k = 0;
	o[k++] = (fin ? 0x80 : 0) | opcode;
	byte m = masked ? 0x80 : 0;
	if (lenform == 0) o[k++] = m | (byte)n;
	else if (lenform == 1) { o[k++] = m | 126; o[k++] = (byte)(n >> 8); o[k++] = (byte)n; }
	else { o[k++] = m | 127; for (int i = 7; i >= 0; i--) o[k++] = (byte)((u64)n >> (8 * i)); }
	if (masked) for (int i = 0; i < 4; i++) o[k++] = key[i];
	for (int i = 0; i < n; i++) o[k++] = masked ? (p[i] ^ key[i & 3]) : p[i];
	return k;
}

// p0 = payload length, p1 = number of symbolic payload bytes (first/last), p2 = receiver role (1 = client receiving unmasked
// frames from a server, 0 = server receiving masked frames), p3 = fragmentation into frames (1..3), p4 = ping in between
extern "C" void h_receive(void)
{
	int n = vp_param(0), nsym = vp_param(1), client = vp_param(2), nfr = vp_param(3), ping = vp_param(4), eof = vp_param(5);   // eof: the peer closes TCP right after its last frame
	static byte pay[70000]; static byte wire[70200]; int wl = 0;
	for (int i = 0; i < n; i++) pay[i] = (byte)(i * 7 + 1);
	for (int i = 0; i < nsym && i < n; i++) { pay[i < nsym / 2 ? i : n - 1 - (i - nsym / 2)] = nondet_u8(); }
	byte key[4]; for (int i = 0; i < 4; i++) key[i] = client ? 0 : nondet_u8();
	// cut points
	int c1 = nfr >= 2 ? vp_concretize(vp_range(1, n - 1)) : n, c2 = nfr >= 3 ? vp_concretize(vp_range(c1, n)) : n;
	int cuts[4] = { 0, c1, c2, n };
	int frames = nfr >= 3 ? 3 : nfr;
	for (int f = 0; f < frames; f++) {
		int a = cuts[f], b = f == frames - 1 ? n : cuts[f + 1];
		int len = b - a; int lf = len < 126 ? 0 : len < 65536 ? 1 : 2;
		wl += ref_frame(wire + wl, f == 0 ? 2 : 0, f == frames - 1, !client, key, pay + a, len, lf);
		if (ping && f == 0 && frames > 1) { byte pp[2] = { 'h', 'i' }; wl += ref_frame(wire + wl, 9, true, !client, key, pp, ping == 2 ? 0 : 2, 0); }      // ping == 2: a ping without payload
	}
	// a second, single-frame message follows on the same connection: message boundaries must be kept
	byte second[3] = { 0x5a, nondet_u8(), 0x5b };
	if (frames > 1) wl += ref_frame(wire + wl, 2, true, !client, key, second, 3, 0);
	int fd = vp_sock_new();
	vp_sock_feed(fd, wire, wl);
	if (eof) vp_sock_peer_close(fd);
	{
		WebSocket ws(Socket(fd), client != 0);
		WebSocketMsg msg = ws.receive();
		ByteArray got = msg;
		vp_assert(got.length() == n, "received message has the sent length (exactly once, fragments reassembled)");
		for (int i = 0; i < n && i < got.length(); i++) vp_assert(got[i] == pay[i], "received message is byte-identical");
		if (frames > 1)
		{
			ByteArray got2 = ws.receive();
			vp_assert(got2.length() == 3 && got2[0] == second[0] && got2[1] == second[1] && got2[2] == second[2], "the message that follows a fragmented one is received separately and intact");
		}
		vp_note(got.length());
	}
	vp_reach(1);
}

// p0 = payload length, p1 = symbolic bytes, p2 = sender role (1 client: masked with the library's random key, 0 server)
extern "C" void h_send(void)
{
	int n = vp_param(0), nsym = vp_param(1), client = vp_param(2);
	static byte pay[70000]; static byte wire[70200];
	for (int i = 0; i < n; i++) pay[i] = (byte)(i * 5 + 3);
	for (int i = 0; i < nsym && i < n; i++) pay[i < nsym / 2 ? i : n - 1 - (i - nsym / 2)] = nondet_u8();
	int fd = vp_sock_new();
	{
		WebSocket ws(Socket(fd), client != 0);
		ws.send(pay, n, WebSocket::FRAME_BINARY);
	}
	int wl = vp_sock_sent(fd, wire, sizeof(wire));
	// reference deframer
	vp_assert(wl >= 2, "a frame was written");
	vp_assert((wire[0] & 0x8f) == 0x82, "FIN set, no RSV bits, binary opcode");
	bool masked = (wire[1] & 0x80) != 0; int l7 = wire[1] & 0x7f; int k = 2; u64 len = l7;
	vp_assert(masked == (client != 0), "client frames are masked, server frames are not");
	if (l7 == 126) { len = ((u64)wire[2] << 8) | wire[3]; k = 4; vp_assert(len >= 126, "16-bit length only for 126..65535"); }
	else if (l7 == 127) { len = 0; for (int i = 0; i < 8; i++) len = (len << 8) | wire[2 + i]; k = 10; vp_assert(len >= 65536, "64-bit length only above 65535"); }
	vp_assert(len == (u64)n, "frame length field equals the payload length");
	byte key[4] = { 0, 0, 0, 0 };
	if (masked) { for (int i = 0; i < 4; i++) key[i] = wire[k + i]; k += 4; }
	vp_assert(wl == k + n, "nothing but the frame was written");
	for (int i = 0; i < n; i++) vp_assert((byte)(wire[k + i] ^ key[i & 3]) == pay[i], "payload arrives byte-identical after unmasking");
	vp_note(wl);
	vp_reach(2);
}

// hostile input: first header byte fully symbolic (every opcode, FIN and RSV combination), mask bit symbolic, length field
// taken from a table of boundary values in the 7/16/64-bit formats (p0), a few payload bytes, the stream cut at every offset
static const u64 LEN7[5] = { 0, 1, 2, 125, 60 };
static const u64 LEN16[6] = { 0, 1, 125, 126, 4000, 65535 };
static const u64 LEN64[12] = { 0, 1, 126, 65536, 0x7fffffffULL, 0x80000000ULL, 0xffffffffULL, 0x100000000ULL, 0xfffffffffff0ULL, 0x8000000000000000ULL, 0xffffffffffffffffULL, 0x00000000fffffff0ULL };
extern "C" void h_hostile(void)
{
	int form = vp_param(0), client = vp_param(1);
	byte wire[64]; int wl = 0;
	wire[wl++] = nondet_u8();
	byte m = nondet_bool() ? 0x80 : 0;
	u64 len;
	if (form == 0) { len = LEN7[vp_concretize(vp_range(0, 4))]; wire[wl++] = m | (byte)len; }
	else if (form == 1) { len = LEN16[vp_concretize(vp_range(0, 5))]; wire[wl++] = m | 126; wire[wl++] = (byte)(len >> 8); wire[wl++] = (byte)len; }
	else { len = LEN64[vp_concretize(vp_range(0, 11))]; wire[wl++] = m | 127; for (int i = 7; i >= 0; i--) wire[wl++] = (byte)(len >> (8 * i)); }
	if (m) for (int i = 0; i < 4; i++) wire[wl++] = nondet_u8();
	int npay = len < 6 ? (int)len : 6;
	for (int i = 0; i < npay; i++) wire[wl++] = (byte)(0x41 + i);
	int cut = vp_concretize(vp_range(0, wl));
	int fd = vp_sock_new();
	vp_sock_feed(fd, wire, cut);
	vp_sock_peer_close(fd);
	{
		WebSocket ws(Socket(fd), client != 0);
		WebSocketMsg msg = ws.receive();
		vp_assert(msg.length() >= 0, "never a message of negative length");
		vp_note(msg.length());
	}
	vp_reach(3);
}

// handshake: the server's accept key for the RFC 6455 sample nonce (first 16 key characters symbolic over the base64 alphabet would
// need a reference SHA-1; the SHA-1/base64 equivalence for all inputs is C15's - here the composition key+GUID is checked)
#include <asl/SHA1.h>
#include <asl/util.h>
extern "C" void h_accept_key(void)
{
	String key = "dGhlIHNhbXBsZSBub25jZQ==";
	SHA1::Hash hash = SHA1::hash(key + "258EAFA5-E914-47DA-95CA-C5AB0DC85B11");
	String digest = encodeBase64(hash, hash.length());
	vp_assert(digest == "s3pPLMBiTxaQ9kYGzzhZRbK+xOo=", "accept key for the RFC 6455 sample nonce");
	vp_reach(4);
}
