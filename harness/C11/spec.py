SOURCES = ['WebSocket.cpp', 'Socket.cpp', 'String.cpp', 'util.cpp', 'SHA1.cpp']
HARNESS = 'h_c11.cpp'
ENV = ['vlibc.c', 'vsock.c']
NATIVE_EXTRA = ['vsock.c']
BIG = {'maxsteps': 40000000}


def instances(tier):
    q = tier == 'quick'
    out = []
    lens = [1, 2, 3, 5, 124, 125, 126, 127, 128, 65535, 65536] if q else [1, 2, 3, 4, 5, 123, 124, 125, 126, 127, 128, 129, 65534, 65535, 65536, 65537]
    for n in lens:
        for role in (0, 1):
            sym = min(n, 4)
            out.append({'entry': 'h_send', 'params': [n, sym, role], 'opts': BIG, 'bound': 'send of a %d-byte message (%d symbolic bytes at both ends) as %s, checked by a reference RFC 6455 deframer' % (n, sym, 'client (masked)' if role else 'server')})
            out.append({'entry': 'h_receive', 'params': [n, sym, role, 1, 0, 1 if n in (1, 5, 126) else 0], 'opts': BIG, 'bound': 'receive of a %d-byte single-frame message built by a reference framer, %s, symbolic mask key' % (n, 'unmasked (client side)' if role else 'masked (server side)')})
    for n, nfr, ping, role in ([(2, 2, 0, 0), (6, 2, 1, 1), (6, 3, 1, 0), (6, 2, 2, 0), (130, 2, 1, 0)] if q else [(2, 2, 0, 0), (3, 3, 0, 1), (6, 2, 1, 1), (6, 3, 1, 0), (6, 2, 2, 0), (6, 3, 2, 1), (8, 3, 1, 1), (130, 2, 1, 0), (130, 3, 1, 1)]):
        out.append({'entry': 'h_receive', 'params': [n, min(n, 4), role, nfr, ping, 1 if n == 6 else 0], 'opts': BIG, 'bound': '%d-byte message fragmented into %d frames at every cut position%s' % (n, nfr, ', ping between the first two fragments' if ping else '')})
    for form in (0, 1, 2):
        for role in (0, 1):
            out.append({'entry': 'h_hostile', 'params': [form, role], 'opts': BIG, 'bound': 'hostile frame: any first byte, any mask bit/key, %s length field from a boundary table, stream cut at every offset' % ('7-bit', '16-bit', '64-bit (incl. bit 31 / bit 63 set)')[form]})
    out.append({'entry': 'h_accept_key', 'params': [], 'bound': 'RFC 6455 sample nonce'})
    return out


BOUNDS = {'quick': 'payload lengths {1,2,3,5,124..128,65535,65536} in both roles and directions with symbolic bytes at both ends and symbolic mask key; 2-3 fragment messages at every cut with a ping in between; hostile headers: every first byte x boundary lengths in all three formats, truncated at every offset',
          'thorough': 'more lengths around every header-format boundary and more fragmentations'}
OUTSIDE = ['lengths beyond 65537', 'the mask key chosen by the sender (the library RNG is executed concretely)', 'real sockets, partial sends, TLS', 'client<->server handshake beyond the accept key']
ASSUMPTIONS = ['sockets = env/vsock.c (read returns what is available, 0 at end of stream)']
