// C12 (interleavings, E-CBMC): thread bodies operating on *global* counters, so that the translated C refers to them as
// direct lvalues (cbmc 6.11 rejects concurrent programs that dereference shared pointers).
#include <asl/atomic.h>
#include <asl/Mutex.h>
using namespace asl;

AtomicCount g_cnt(5);
Atomic<int> g_at(7);

// each thread body performs a fixed multiset of operations; the driver instantiates 2 and 3 thread scenarios
extern "C" void th_inc2(void) { ++g_cnt; ++g_cnt; }
extern "C" void th_incdec(void) { ++g_cnt; --g_cnt; ++g_cnt; }
extern "C" void th_dec1(void) { --g_cnt; }
extern "C" void th_inc3(void) { ++g_cnt; ++g_cnt; ++g_cnt; }
extern "C" void ta_inc2(void) { ++g_at; g_at += 3; }
extern "C" void ta_dec(void) { --g_at; g_at -= 2; }
extern "C" void ta_post(void) { g_at++; g_at--; g_at++; }
extern "C" int get_cnt(void) { return g_cnt; }
extern "C" int get_at(void) { return g_at; }
