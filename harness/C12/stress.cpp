// native confirmation of a lost-update counterexample: real threads hammering the real AtomicCount / Atomic<int>
#include <asl/atomic.h>
#include <asl/Mutex.h>
#include <pthread.h>
#include <stdio.h>
using namespace asl;
static AtomicCount cnt(0); static Atomic<int> at(0);
static const int N = 2000000;
static void* w1(void*) { for (int i = 0; i < N; i++) { ++cnt; ++cnt; --cnt; } return 0; }
static void* w2(void*) { for (int i = 0; i < N / 20; i++) { ++at; at += 3; at -= 2; at++; --at; } return 0; }
int main()
{
	pthread_t t[8];
	for (int i = 0; i < 4; i++) pthread_create(&t[i], 0, w1, 0);
	for (int i = 4; i < 8; i++) pthread_create(&t[i], 0, w2, 0);
	for (int i = 0; i < 8; i++) pthread_join(t[i], 0);
	int a = cnt, b = at;
	printf("cnt=%d (expected %d) at=%d (expected %d)\n", a, 4 * N, b, 4 * (N / 20) * 2);
	return (a == 4 * N && b == 4 * (N / 20) * 2) ? 0 : 99;
}
