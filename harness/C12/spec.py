import os, sys, subprocess, json, time, re
HERE = os.path.dirname(os.path.abspath(__file__))
VERIF = os.path.dirname(os.path.dirname(HERE))
REPO = os.environ.get('VERIF_REPO', '/repo')
SOURCES = ['String.cpp']
HARNESS = 'h_c12.cpp'
ENV = ['vlibc.c']


def instances(tier):
    n = 2 if tier == 'quick' else 3
    out = [{'entry': e, 'params': [n], 'bound': 'every history of %d copy/assign/drop operations on three handles (%s)' % (n, e[2:])} for e in ('h_array', 'h_map', 'h_hashmap', 'h_shared')]
    # concurrent handle protocols on the thread model (engine/threads_sym.py)
    for e in ('h_conc_array', 'h_conc_map', 'h_conc_hashmap', 'h_conc_shared'):
        for nt, B in (((2, 2),) if tier == 'quick' else ((2, 3), (3, 2))):
            for prog in (0, 1, 2):
                if e == 'h_conc_hashmap' and (tier == 'quick' or nt == 3) and prog != 2 and B > 1: B_ = 1
                else: B_ = B
                out.append({'entry': e, 'params': [B_, nt, prog], 'bound': '%d threads each %s its own handle to the same %s payload; every interleaving of the visible operations with at most %d preemptions'
                            % (nt, ('dropping', 'copying and dropping', 'reassigning')[prog], e[7:], B_)})
    for prog in (0, 1, 2):
        out.append({'entry': 'h_conc_atomic', 'params': [2 if tier == 'quick' else 3, prog], 'bound': 'Atomic<int>: one thread doing *= 1 and /= 1, another doing %s; every interleaving of the lock operations with at most %d preemptions' % (('++ and += 3', '-- and -= 2', 'post-increment and *= 1')[prog], 2 if tier == 'quick' else 3)})
    return out


# interleaving scenarios: (threads, getter, initial, deltas)
DELTA = {'th_inc2': 2, 'th_incdec': 1, 'th_dec1': -1, 'th_inc3': 3, 'ta_inc2': 4, 'ta_dec': -3, 'ta_post': 1}
def scenarios(tier):
    s = [(['th_inc2', 'th_incdec'], 'get_cnt', 5), (['th_inc2', 'th_dec1'], 'get_cnt', 5), (['th_inc3', 'th_incdec', 'th_dec1'], 'get_cnt', 5),
         (['ta_inc2', 'ta_dec'], 'get_at', 7), (['ta_post', 'ta_inc2'], 'get_at', 7)]
    if tier != 'quick':
        s += [(['th_inc3', 'th_inc3', 'th_incdec'], 'get_cnt', 5), (['ta_post', 'ta_dec', 'ta_inc2'], 'get_at', 7), (['th_inc3', 'th_inc3'], 'get_cnt', 5)]
    return s


def extra(a, workdir):
    sys.path.insert(0, os.path.join(VERIF, 'engine'))
    import ir, ll2c_atomic
    out = {'violations': [], 'errors': [], 'evidence': {}}
    t0 = time.time()
    ll = workdir + '/c12_threads.ll'
    r = subprocess.run(['clang++-14', '-std=c++11', '-DASL_STATIC', '-DNDEBUG', '-I' + REPO + '/include', '-O1', '-fno-pic', '-fno-vectorize', '-fno-slp-vectorize', '-fno-unroll-loops', '-S', '-emit-llvm',
                        HERE + '/h_c12_threads.cpp', '-o', ll], stdout=subprocess.PIPE, stderr=subprocess.STDOUT, universal_newlines=True)
    if r.returncode:
        out['errors'].append('clang failed: ' + r.stdout[-500:]); return out
    mod = ir.parse_module(open(ll).read())
    res = []
    for i, (threads, getter, init) in enumerate(scenarios(a.tier)):
        expected = init + sum(DELTA[t] for t in threads)
        row = {'threads': threads, 'observed_by': getter, 'expected_final': expected}
        try:
            for witness in (False, True):
                tr = ll2c_atomic.Tr(mod)
                c = tr.program(threads, getter, expected, witness)
                cf = workdir + '/c12_s%d%s.c' % (i, '_w' if witness else '')
                open(cf, 'w').write(c)
                t1 = time.time()
                p = subprocess.run(['cbmc', cf, '--unwind', '4', '--unwinding-assertions', '--trace'], stdout=subprocess.PIPE, stderr=subprocess.STDOUT, universal_newlines=True, timeout=600)
                dt = time.time() - t1
                ok = 'VERIFICATION SUCCESSFUL' in p.stdout; bad = 'VERIFICATION FAILED' in p.stdout
                if witness:
                    row['witness_reachable'] = bad; row['witness_s'] = round(dt, 2)
                    if not bad: out['errors'].append('scenario %s: witness assert(0) not reachable (vacuous)' % threads)
                else:
                    row['result'] = 'holds for all interleavings' if ok else 'VIOLATED' if bad else 'error'; row['cbmc_s'] = round(dt, 2)
                    row['atomic_sections'] = c.count('__CPROVER_atomic_begin')
                    if bad:
                        rdir = os.path.join(os.environ.get('VP_REPLAY_DIR', VERIF + '/replays'), 'C12'); os.makedirs(rdir, exist_ok=True)
                        path = rdir + '/interleaving_%s.txt' % '_'.join(threads)
                        open(path, 'w').write(c + '\n/* cbmc trace */\n' + p.stdout[-6000:])
                        # native confirmation: real threads on the real classes
                        exe = workdir + '/c12_stress'
                        b = subprocess.run(['g++', '-std=c++11', '-O1', '-DASL_STATIC', '-I' + REPO + '/include', HERE + '/stress.cpp', '-lpthread', '-o', exe], stdout=subprocess.PIPE, stderr=subprocess.STDOUT, universal_newlines=True)
                        st = subprocess.run([exe], stdout=subprocess.PIPE, stderr=subprocess.STDOUT, universal_newlines=True, timeout=300) if b.returncode == 0 else None
                        row['native_stress'] = (st.stdout.strip() if st else 'build failed')
                        if st is not None and st.returncode == 99:
                            out['violations'].append(('interleaving of %s loses an update (cbmc counterexample; native stress run: %s)' % (threads, st.stdout.strip()), path))
                        else:
                            out['errors'].append('cbmc counterexample for %s not reproduced by the native stress run' % threads)
                    elif not ok:
                        out['errors'].append('cbmc error on scenario %s: %s' % (threads, p.stdout[-300:]))
        except ll2c_atomic.Unsupported as e:
            out['errors'].append('translator: %s' % e)
        except subprocess.TimeoutExpired:
            out['errors'].append('cbmc timeout on %s' % threads)
        res.append(row)
    out['evidence'] = {'engine': 'E-CBMC: clang IR of the thread bodies -> engine/ll2c_atomic.py -> cbmc 6.11 (partial-order encoding of all interleavings)',
                       'scenarios': res, 'seconds': round(time.time() - t0, 1),
                       'bound': '2-3 threads x up to 3 operations each on one global AtomicCount / Atomic<int>; every interleaving of the atomic steps',
                       'outside': 'handle protocols (Array/Map/Shared/SmartObject) under interleavings: they reach the shared object through a pointer and cbmc 6.11 rejects such programs ("pointer handling for concurrency is unsound"); 16-thread high-contention runs'}
    return out


BOUNDS = {'quick': 'sequential: all histories of 2 copy/assign/drop operations on 3 handles of Array, Map, HashMap, Shared; interleavings: 5 scenarios of 2-3 threads on AtomicCount and Atomic<int>',
          'thorough': 'sequential histories of 3 operations; 8 interleaving scenarios'}
OUTSIDE = ['interleavings of the handle protocols (cbmc cannot encode threads that share a heap object through pointers)', 'SmartObject-based classes', 'randomized high-contention runs']
ASSUMPTIONS = ['pthread_mutex_lock/unlock on a global mutex = acquire/release of a lock variable (cbmc atomic section + assume)', 'sequential consistency (cbmc default memory model)']
