// C12 (sequential part, E-SYM): copy / assign / drop histories on handles to the same Array, Map, HashMap and Shared<T>:
// the shared payload stays alive while any handle exists and is destroyed exactly once when the last handle goes.
#include <asl/Array.h>
#include <asl/Map.h>
#include <asl/HashMap.h>
#include <asl/Pointer.h>
#include <asl/Mutex.h>
#include "vp.h"
using namespace asl;

struct Counted
{
	static int live, dtors;
	int id;
	Counted() : id(0) { live++; }
	Counted(int i) : id(i) { live++; }
	Counted(const Counted& o) : id(o.id) { live++; }
	~Counted() { live--; dtors++; }
	Counted& operator=(const Counted& o) { id = o.id; return *this; }
	bool operator==(const Counted& o) const { return id == o.id; }
	bool operator!=(const Counted& o) const { return id != o.id; }
};
int Counted::live = 0, Counted::dtors = 0;

template<class H> struct Ops;
template<> struct Ops<Array<Counted> > { static Array<Counted> make(int id) { Array<Counted> a; a << Counted(id) << Counted(id + 1); return a; } static int id(const Array<Counted>& h) { return h.length() == 2 ? h[0].id : -1; } static int payload() { return 2; } };
template<> struct Ops<Map<int, Counted> > { typedef Map<int, Counted> M; static M make(int id) { M m; m[1] = Counted(id); m[2] = Counted(id + 1); return m; } static int id(const M& h) { const Counted* p = h.find(1); return (h.length() == 2 && p) ? p->id : -1; } static int payload() { return 2; } };
template<> struct Ops<HashMap<int, Counted> > { typedef HashMap<int, Counted> M; static M make(int id) { M m(2); m[1] = Counted(id); m[3] = Counted(id + 1); return m; } static int id(const M& h) { const Counted* p = h.find(1); return (h.length() == 2 && p) ? p->id : -1; } static int payload() { return 2; } };
template<> struct Ops<Shared<Counted> > { typedef Shared<Counted> M; static M make(int id) { return M(new Counted(id)); } static int id(const M& h) { return h.get() ? h->id : -1; } static int payload() { return 1; } };

// p0 = number of ops.  Three handle slots, two payloads (ids 100 and 200).  model: which payload each slot refers to (0 none/empty, 1, 2)
template<class H>
static void hist()
{
	int nops = vp_param(0);
	int live0 = Counted::live;
	{
		H h[3] = { Ops<H>::make(100), Ops<H>::make(200), Ops<H>::make(300) };
		int ref[3] = { 1, 2, 3 }; int next = 4;
		for (int s = 0; s < nops; s++) {
			int op = vp_concretize(vp_range(0, 2));
			int a = vp_concretize(vp_range(0, 2)), b = vp_concretize(vp_range(0, 2));
			if (op == 0) { h[a] = h[b]; ref[a] = ref[b]; }                            // assign (incl. self-assignment)
			else if (op == 1) { H t(h[b]); vp_assert(Ops<H>::id(t) == Ops<H>::id(h[b]), "a copied handle sees the same payload"); h[a] = t; ref[a] = ref[b]; }   // copy-construct, assign, drop the temporary
			else { h[a] = Ops<H>::make(100 * next); ref[a] = next++; }                 // drop: the slot gets a fresh payload
			int distinct = 0;
			for (int i = 0; i < 3; i++) {
				vp_assert(Ops<H>::id(h[i]) == 100 * ref[i], "every handle still reaches its payload (alive while any handle exists)");
				bool first = true; for (int j = 0; j < i; j++) if (ref[j] == ref[i]) first = false;
				if (first) distinct++;
			}
			vp_assert(Counted::live - live0 == distinct * Ops<H>::payload(), "a payload is destroyed exactly when its last handle is dropped");
		}
	}
	vp_assert(Counted::live == live0, "everything destroyed exactly once at the end");
	vp_reach(1);
}
extern "C" void h_array(void) { hist<Array<Counted> >(); }
extern "C" void h_map(void) { hist<Map<int, Counted> >(); }
extern "C" void h_hashmap(void) { hist<HashMap<int, Counted> >(); }
extern "C" void h_shared(void) { hist<Shared<Counted> >(); }

// ---- concurrent part on the engine's thread model: 2-3 threads, each owning one handle to the same payload, copy and
// drop them concurrently (the decrements/increments of the shared count are the visible operations; every interleaving
// with at most p0 preemptions).  p1 = number of threads, p2 = per-thread program: 0 drop, 1 copy a temporary then drop,
// 2 assign another payload's handle.  Natively the scenario is repeated many times with real threads.
#include <pthread.h>
#include <time.h>
static volatile int g_arrived, g_go;      // native runs only: start barrier so that the threads' operations overlap
template<class H> struct Conc
{
	static H* hp; static H* otherp; static H* emptyp; static int prog;     // (objects are created in run(): no dynamic initialisers of template statics)
	static void* body(void* arg)
	{
		int i = (int)(long)arg;
		H* h = hp; H& other = *otherp;
		if (!vp_symbolic_run()) { __sync_fetch_and_add(&g_arrived, 1); while (!g_go) {} }
		if (prog == 1) { H t(h[i]); vp_assert(Ops<H>::id(t) == 100, "a copied handle sees the payload while it is alive"); }
		if (prog == 2) h[i] = other; else h[i] = emptyp[i];      // (the replacement handles exist beforehand: no allocation between the barrier and the drop)
		return 0;
	}
	static void run()
	{
		vp_sched_budget(vp_param(0));
		int nt = vp_param(1); prog = vp_param(2);
		int rounds = vp_symbolic_run() ? 1 : 1000000;     // natively: as many rounds as fit into about 3 seconds
		struct timespec t0; clock_gettime(CLOCK_MONOTONIC, &t0);
		H* h = hp = new H[3]; otherp = new H; H& other = *otherp; emptyp = new H[3];
		for (int r = 0; r < rounds; r++)
		{
			if (r && (r & 63) == 0) { struct timespec t; clock_gettime(CLOCK_MONOTONIC, &t); if (t.tv_sec - t0.tv_sec >= 3) break; }
			int live0 = Counted::live, d0 = Counted::dtors;
			{
				H m = Ops<H>::make(100);
				other = Ops<H>::make(200);
				for (int i = 0; i < nt; i++) h[i] = m;
				m = H();
				pthread_t th[3];
				g_arrived = 0; g_go = 0;
				for (int i = 0; i < nt; i++) pthread_create(&th[i], 0, body, (void*)(long)i);
				if (!vp_symbolic_run()) { while (g_arrived < nt) {} g_go = 1; }
				for (int i = 0; i < nt; i++) pthread_join(th[i], 0);
				vp_assert(Counted::live - live0 == Ops<H>::payload(), "after all handles of the first payload are dropped it is destroyed (exactly the other payload is alive)");
				for (int i = 0; i < nt; i++) { if (prog == 2) vp_assert(Ops<H>::id(h[i]) == 200, "each thread's handle holds what it assigned"); h[i] = H(); }
				other = H();
			}
			vp_assert(Counted::live == live0, "every payload destroyed");
			vp_assert(Counted::dtors - d0 >= 2 * Ops<H>::payload(), "destructors ran for both payloads");
		}
		delete[] hp; delete otherp; delete[] emptyp;
		vp_reach(2);
	}
};
template<class H> H* Conc<H>::hp;
template<class H> H* Conc<H>::otherp;
template<class H> H* Conc<H>::emptyp;
template<class H> int Conc<H>::prog;
extern "C" void h_conc_array(void) { Conc<Array<Counted> >::run(); }
extern "C" void h_conc_map(void) { Conc<Map<int, Counted> >::run(); }
extern "C" void h_conc_hashmap(void) { Conc<HashMap<int, Counted> >::run(); }
extern "C" void h_conc_shared(void) { Conc<Shared<Counted> >::run(); }

// Atomic<T> read-modify-write operators under interleavings (all of them, incl. *= and /= which the counter scenarios of the
// cbmc part do not use): p1 = program of the second thread (0: ++ and += ; 1: -- and -= ; 2: ++ (post) and *= 1)
static Atomic<int>* g_atom; static int g_aprog;
static void* atom_a(void*)
{
	if (!vp_symbolic_run()) { __sync_fetch_and_add(&g_arrived, 1); while (!g_go) {} }
	for (int k = 0; k < (vp_symbolic_run() ? 1 : 200); k++) { *g_atom *= 1; *g_atom /= 1; }
	return 0;
}
static void* atom_b(void*)
{
	if (!vp_symbolic_run()) { __sync_fetch_and_add(&g_arrived, 1); while (!g_go) {} }
	for (int k = 0; k < (vp_symbolic_run() ? 1 : 200); k++)
	{
		if (g_aprog == 0) { ++*g_atom; *g_atom += 3; }
		else if (g_aprog == 1) { --*g_atom; *g_atom -= 2; }
		else { (*g_atom)++; *g_atom *= 1; }
	}
	return 0;
}
extern "C" void h_conc_atomic(void)
{
	vp_sched_budget(vp_param(0));
	g_aprog = vp_param(1);
	int delta = g_aprog == 0 ? 4 : g_aprog == 1 ? -3 : 1;
	int reps = vp_symbolic_run() ? 1 : 200;
	struct timespec t0; clock_gettime(CLOCK_MONOTONIC, &t0);
	for (int r = 0; r < (vp_symbolic_run() ? 1 : 1000000); r++)
	{
		if (r && (r & 15) == 0) { struct timespec t; clock_gettime(CLOCK_MONOTONIC, &t); if (t.tv_sec - t0.tv_sec >= 3) break; }
		g_atom = new Atomic<int>(7);
		g_arrived = 0; g_go = 0;
		pthread_t a, b;
		pthread_create(&a, 0, atom_a, 0); pthread_create(&b, 0, atom_b, 0);
		if (!vp_symbolic_run()) { while (g_arrived < 2) {} g_go = 1; }
		pthread_join(a, 0); pthread_join(b, 0);
		vp_assert((int)*g_atom == 7 + reps * delta, "no Atomic<T> update is lost: the final value is the initial value plus the sum of all operations");
		delete g_atom;
	}
	vp_reach(3);
}
