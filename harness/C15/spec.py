GROUPS = [
    {'name': 'main', 'sources': ['util.cpp', 'String.cpp'], 'harness': 'h_c15.cpp', 'env': ['vlibc.c']},
    {'name': 'url', 'sources': ['Http.cpp', 'String.cpp'], 'harness': 'h_c15_url.cpp', 'env': ['vlibc.c']},
    {'name': 'sha', 'sources': ['SHA1.cpp'], 'harness': 'h_c15_sha.cpp', 'env': []},
]


def instances(tier):
    q = tier == 'quick'
    out = []
    for n in range(0, 10):
        out.append({'entry': 'h_b64_roundtrip', 'params': [n], 'bound': 'every byte array of length %d' % n})
    for n, w in ((1, 1), (2, 1), (3, 1), (1, 2), (4, 1)) if q else ((1, 1), (2, 1), (3, 1), (1, 2), (2, 2), (4, 1), (5, 1), (4, 2)):
        out.append({'entry': 'h_b64_ws', 'params': [n, w], 'bound': 'every %d-byte array, %d whitespace character(s) (space, LF, TAB, CR) inserted at every position of its Base64 text' % (n, w)})
    for n in range(0, 5 if q else 6):
        out.append({'entry': 'h_b64_decode_any', 'params': [n], 'bound': 'every NUL-free text of length %d' % n})
    for n in range(0, 4 if q else 5):
        out.append({'entry': 'h_hex_roundtrip', 'params': [n], 'bound': 'every byte array of length %d' % n})
    for n in range(0, 4 if q else 5):
        out.append({'entry': 'h_hex_decode_any', 'params': [n, n], 'bound': 'every NUL-free text of length %d' % n})
    for n in (5, 6, 7, 8, 15, 16, 23, 24, 31):
        out.append({'entry': 'h_hex_decode_any', 'params': [n, 2], 'bound': 'texts of length %d: hex filler + every 2-byte tail' % n})
    for n in range(0, 3 if q else 4):
        for comp in (0, 1):
            out.append({'group': 'url', 'entry': 'h_url_roundtrip', 'params': [n, comp], 'bound': 'every NUL-free string of length %d, component=%d' % (n, comp)})
    for n in range(0, 4 if q else 5):
        out.append({'group': 'url', 'entry': 'h_url_decode_any', 'params': [n], 'bound': 'every NUL-free text of length %d' % n})
    qs = [(1, 0, 0, 0), (1, 1, 0, 0), (2, 0, 0, 0), (1, 0, 1, 0)] if q else [(1, 0, 0, 0), (1, 1, 0, 0), (2, 0, 0, 0), (1, 2, 0, 0), (2, 1, 0, 0), (1, 0, 1, 0), (1, 1, 1, 0), (1, 0, 1, 1)]
    for p in qs:
        out.append({'group': 'url', 'entry': 'h_query_roundtrip', 'params': list(p), 'bound': 'dictionaries with key/value lengths %s, all NUL-free bytes' % (p,)})
    out.append({'group': 'sha', 'entry': 'h_sha1_lemmas', 'params': [], 'bound': 'all 32-bit x,y,z'})
    lens = list(range(0, 131)) if not q else [0, 1, 3, 54, 55, 56, 57, 63, 64, 65, 118, 119, 120, 121, 127, 128, 129, 130]
    for n in lens:
        out.append({'group': 'sha', 'entry': 'h_sha1_equiv', 'params': [n], 'opts': {'simplify': True, 'samples': 1},
                    'bound': 'every message of length %d (content symbolic)' % n})
    return out


BOUNDS = {
    'quick': 'base64 round trip: all byte arrays of length 0..9; decodeBase64: all NUL-free texts of length 0..4; hex round trip length 0..3, decodeHex all texts of length 0..3 plus every 2-byte tail of filler texts up to length 31; Url encode/decode all strings of length 0..2 (both modes), Url::decode all texts of length 0..3; parseQuery(params(d)) for 1-2 entries with keys/values of 0..2 bytes; SHA-1 == FIPS 180-4 reference for all messages of 18 lengths covering every padding case up to 3 blocks',
    'thorough': 'as quick with: decodeBase64 texts to length 5, hex to length 4, Url strings to length 3 / decode texts to 4, 8 dictionary shapes, SHA-1 every message length 0..130',
}
OUTSIDE = ['arrays/texts longer than the stated lengths', 'SHA-1 messages longer than 130 bytes (4+ blocks)', 'base64 with whitespace inserted inside otherwise valid text beyond what the all-texts enumeration covers (length <= 5)']
ASSUMPTIONS = ['SHA-1: the reference uses Ch/Maj in xor/and form; h_sha1_lemmas proves these equal to the FIPS 180-4 definitions for all words',
               'SHA-1 equivalence is decided on AC-normalised terms (flatten/sort/constant-fold of + ^ & |), after which asl and reference digests are the identical term']
