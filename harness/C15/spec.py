SOURCES = ['util.cpp', 'String.cpp']
HARNESS = 'h_c15.cpp'
ENV = ['vlibc.c']

def instances(tier):
    out = []
    for n in range(0, 10):
        out.append({'entry': 'h_b64_roundtrip', 'params': [n], 'bound': 'every byte array of length %d' % n})
    for n in range(0, 5 if tier == 'quick' else 6):
        out.append({'entry': 'h_b64_decode_any', 'params': [n], 'bound': 'every NUL-free text of length %d' % n})
    return out

BOUNDS = {'quick': 'base64 round trip: all byte arrays of length 0..9; decodeBase64: all NUL-free texts of length 0..4',
          'thorough': 'base64 round trip: all byte arrays of length 0..9; decodeBase64: all NUL-free texts of length 0..5'}
OUTSIDE = ['arrays longer than 9 bytes', 'texts longer than 5 bytes']
ASSUMPTIONS = []
