// C15 harnesses (3): SHA-1 against a FIPS 180-4 reference written here
#include <asl/SHA1.h>
#include <asl/Array.h>
#include "vp.h"
using namespace asl;
typedef unsigned int u32;

static u32 rotl(u32 x, int n) { return (x << n) | (x >> (32 - n)); }

static u32 ch_fips(u32 x, u32 y, u32 z) { return (x & y) ^ (~x & z); }
static u32 maj_fips(u32 x, u32 y, u32 z) { return (x & y) ^ (x & z) ^ (y & z); }
static u32 ch_alt(u32 x, u32 y, u32 z) { return (x & (y ^ z)) ^ z; }
static u32 maj_alt(u32 x, u32 y, u32 z) { return ((x | y) & z) | (x & y); }

// FIPS 180-4 section 4.1.1: Ch and Maj as defined there equal the forms used in ref_sha1, for all 32-bit words
extern "C" void h_sha1_lemmas(void)
{
	u32 x = nondet_u32(), y = nondet_u32(), z = nondet_u32();
	vp_assert(ch_fips(x, y, z) == ch_alt(x, y, z), "Ch(x,y,z) forms equal");
	vp_assert(maj_fips(x, y, z) == maj_alt(x, y, z), "Maj(x,y,z) forms equal");
	vp_assert(((x & y) | (~x & z)) == ch_fips(x, y, z), "Ch or-form equals xor-form");
	vp_reach(9);
}

static void ref_sha1(const byte* msg, int n, byte out[20])
{
	u32 h0 = 0x67452301, h1 = 0xEFCDAB89, h2 = 0x98BADCFE, h3 = 0x10325476, h4 = 0xC3D2E1F0;
	byte m[320];
	int total = ((n + 8) / 64 + 1) * 64;
	for (int i = 0; i < total; i++) m[i] = i < n ? msg[i] : 0;
	m[n] = 0x80;
	unsigned long long bits = (unsigned long long)n * 8;
	for (int i = 0; i < 8; i++) m[total - 1 - i] = (byte)(bits >> (8 * i));
	for (int b = 0; b < total; b += 64) {
		u32 w[80];
		// big-endian word load written as little-endian load + byte swap (same value; keeps both term DAGs identical)
		for (int i = 0; i < 16; i++) { u32 le; memcpy(&le, m + b + 4 * i, 4); w[i] = __builtin_bswap32(le); }
		for (int i = 16; i < 80; i++) w[i] = rotl(w[i - 3] ^ w[i - 8] ^ w[i - 14] ^ w[i - 16], 1);
		u32 a = h0, bb = h1, c = h2, d = h3, e = h4;
		for (int i = 0; i < 80; i++) {
			u32 f, k;
			// Ch and Maj in their xor/and forms; h_sha1_lemmas proves them equal to the FIPS 180-4 definitions
			// (written this way so that both computations normalise to the same term DAG; the SAT miter of
			// two differently-shaped 80-round computations does not finish)
			if (i < 20) { f = ch_alt(bb, c, d); k = 0x5A827999; }
			else if (i < 40) { f = bb ^ c ^ d; k = 0x6ED9EBA1; }
			else if (i < 60) { f = maj_alt(bb, c, d); k = 0x8F1BBCDC; }
			else { f = bb ^ c ^ d; k = 0xCA62C1D6; }
			u32 t = rotl(a, 5) + f + e + k + w[i];
			e = d; d = c; c = rotl(bb, 30); bb = a; a = t;
		}
		h0 += a; h1 += bb; h2 += c; h3 += d; h4 += e;
	}
	u32 h[5] = { h0, h1, h2, h3, h4 };
	for (int i = 0; i < 5; i++) for (int j = 0; j < 4; j++) out[4 * i + j] = (byte)(h[i] >> (24 - 8 * j));
}

// p0 = message length (concrete), content symbolic: SHA1::hash == FIPS 180-4
extern "C" void h_sha1_equiv(void)
{
	int n = vp_param(0);
	byte msg[264];
	for (int i = 0; i < n; i++) msg[i] = nondet_u8();
	byte ref[20];
	ref_sha1(msg, n, ref);
	SHA1::Hash h = SHA1::hash(msg, n);
	vp_assert(h.length() == 20, "digest length");
	int same = 1;
	for (int i = 0; i < 20; i++) same &= (h[i] == ref[i]);
	vp_assert(same, "SHA1::hash equals FIPS 180-4 reference");
	for (int i = 0; i < 20; i++) vp_note(h[i]);
	vp_reach(8);
}
