// C15 harnesses: Base64 / hex / percent-encoding / SHA-1
#include <asl/util.h>
#include <asl/String.h>
#include <asl/Array.h>
#include "vp.h"
using namespace asl;

static const char B64[] = "ABCDEFGHIJKLMNOPQRSTUVWXYZabcdefghijklmnopqrstuvwxyz0123456789+/";

// reference RFC 4648 encoder
static int ref_b64(const byte* d, int n, char* out)
{
	int k = 0;
	for (int i = 0; i < n; i += 3) {
		unsigned v = d[i] << 16; int rem = n - i;
		if (rem > 1) v |= d[i + 1] << 8;
		if (rem > 2) v |= d[i + 2];
		out[k++] = B64[(v >> 18) & 63]; out[k++] = B64[(v >> 12) & 63];
		out[k++] = rem > 1 ? B64[(v >> 6) & 63] : '='; out[k++] = rem > 2 ? B64[v & 63] : '=';
	}
	out[k] = 0; return k;
}

// p0 = length: encodeBase64 == RFC 4648 and decode(encode(d)) == d, all byte values
extern "C" void h_b64_roundtrip(void)
{
	int n = vp_param(0);
	byte d[16];
	for (int i = 0; i < n; i++) d[i] = nondet_u8();
	char ref[32]; int rl = ref_b64(d, n, ref);
	String e = encodeBase64(d, n);
	vp_assert(e.length() == rl, "b64 encoded length");
	for (int i = 0; i < rl; i++) vp_assert((*e)[i] == ref[i], "b64 encoded text equals RFC 4648");
	vp_assert((*e)[rl] == 0, "b64 text terminated");
	ByteArray b = decodeBase64(e);
	vp_assert(b.length() == n, "b64 decoded length");
	for (int i = 0; i < n && i < b.length(); i++) { vp_assert(b[i] == d[i], "b64 decoded byte"); vp_note(b[i]); }
	vp_reach(1);
}

// p0 = text length: decodeBase64 on every text of that length is memory safe and returns length >= 0
extern "C" void h_b64_decode_any(void)
{
	int n = vp_param(0);
	char* t = (char*)malloc(n + 1);
	for (int i = 0; i < n; i++) { t[i] = (char)nondet_u8(); vp_assume(t[i] != 0); }
	t[n] = 0;
	ByteArray b = decodeBase64(t, n);
	vp_assert(b.length() >= 0, "decodeBase64 length non-negative");
	vp_assert(b.length() <= (n * 3) / 4 + 3, "decodeBase64 length bounded by input");
	vp_note(b.length());
	free(t);
	vp_reach(2);
}

// ---------------------------------------------------------------- hex
// p0 = n: encodeHex == lowercase hex and decodeHex(encodeHex(d)) == d
extern "C" void h_hex_roundtrip(void)
{
	int n = vp_param(0);
	byte d[8];
	for (int i = 0; i < n; i++) d[i] = nondet_u8();
	String h = encodeHex(d, n);
	vp_assert(h.length() == 2 * n, "hex length");
	static const char HX[] = "0123456789abcdef";
	for (int i = 0; i < n; i++) {
		vp_assert((*h)[2 * i] == HX[d[i] >> 4] && (*h)[2 * i + 1] == HX[d[i] & 15], "hex digits lowercase");
	}
	vp_assert((*h)[2 * n] == 0, "hex terminated");
	ByteArray b = decodeHex(h);
	vp_assert(b.length() == n, "hex decoded length");
	for (int i = 0; i < n && i < b.length(); i++) { vp_assert(b[i] == d[i], "hex decoded byte"); vp_note(b[i]); }
	vp_reach(3);
}

// p0 = text length (odd and even): decodeHex on every text stays in bounds, length >= 0
extern "C" void h_hex_decode_any(void)
{
	int n = vp_param(0), nsym = vp_param(1);   // the last nsym characters are symbolic, the rest is "a5a5..."
	char t[40];
	for (int i = 0; i < n; i++) {
		if (i >= n - nsym) { t[i] = (char)nondet_u8(); vp_assume(t[i] != 0); }
		else t[i] = (i & 1) ? '5' : 'a';
	}
	t[n] = 0;
	String s(t);
	ByteArray b = decodeHex(s);
	vp_assert(b.length() >= 0 && b.length() <= (n + 1) / 2, "decodeHex length in range");
	vp_note(b.length());
	vp_reach(4);
}

// p0 = n data bytes, p1 = number of whitespace characters inserted at symbolic positions of the Base64 text
// (anywhere, including between and after the '=' padding): decoding still returns the original bytes
extern "C" void h_b64_ws(void)
{
	int n = vp_param(0), nws = vp_param(1);
	byte d[8];
	for (int i = 0; i < n; i++) d[i] = nondet_u8();
	char ref[16]; int rl = ref_b64(d, n, ref);
	char t[24]; memcpy(t, ref, rl + 1); int tl = rl;
	for (int w = 0; w < nws; w++) {
		int pos = vp_concretize(vp_range(0, tl));
		int k = vp_concretize(vp_range(0, 3));
		memmove(t + pos + 1, t + pos, tl - pos + 1);
		t[pos] = " \n\t\r"[k]; tl++;
	}
	ByteArray b = decodeBase64(t, -1);
	vp_assert(b.length() == n, "Base64 text interleaved with whitespace decodes to the original length");
	for (int i = 0; i < n && i < b.length(); i++) vp_assert(b[i] == d[i], "Base64 text interleaved with whitespace decodes to the original bytes");
	vp_reach(10);
}
