// C15 harnesses (2): percent-encoding and query strings (Http.cpp)
#include <asl/Http.h>
#include <asl/String.h>
#include <asl/Map.h>
#include "vp.h"
using namespace asl;

// p0 = length, p1 = component mode: Url::decode(Url::encode(s, mode)) == s for every NUL-free s
extern "C" void h_url_roundtrip(void)
{
	int n = vp_param(0); bool comp = vp_param(1) != 0;
	char t[12];
	for (int i = 0; i < n; i++) { t[i] = (char)nondet_u8(); vp_assume(t[i] != 0); }
	t[n] = 0;
	String s(t);
	String e = Url::encode(s, comp);
	vp_assert(e.length() >= n && e.length() <= 3 * n, "encoded length between n and 3n");
	vp_assert((int)strlen(*e) == e.length(), "encoded string consistent");
	for (int i = 0; i < e.length(); i++) { byte c = (byte)(*e)[i]; vp_assert(c > 32 && c < 127, "encoded text is printable ASCII"); }
	String d = Url::decode(e);
	vp_assert(d.length() == n, "decoded length");
	for (int i = 0; i < n && i < d.length(); i++) { vp_assert((*d)[i] == t[i], "decoded byte"); vp_note((*d)[i]); }
	vp_reach(5);
}

// p0 = length: Url::decode on any text is in bounds and never longer than its input
extern "C" void h_url_decode_any(void)
{
	int n = vp_param(0);
	char* t = (char*)malloc(n + 1);
	for (int i = 0; i < n; i++) { t[i] = (char)nondet_u8(); vp_assume(t[i] != 0); }
	t[n] = 0;
	String s(t);
	String d = Url::decode(s);
	vp_assert(d.length() >= 0 && d.length() <= n, "decoded no longer than input");
	vp_note(d.length());
	free(t);
	vp_reach(6);
}

// p0,p1 = key/value length of entry 1; p2,p3 = of entry 2 (p2 = 0: single entry): parseQuery(params(d)) == d
extern "C" void h_query_roundtrip(void)
{
	int kl[2] = { vp_param(0), vp_param(2) }, vl[2] = { vp_param(1), vp_param(3) };
	int ne = kl[1] > 0 ? 2 : 1;
	char k[2][4], v[2][4];
	Dic<> d;
	for (int e = 0; e < ne; e++) {
		for (int i = 0; i < kl[e]; i++) { k[e][i] = (char)nondet_u8(); vp_assume(k[e][i] != 0); }
		k[e][kl[e]] = 0;
		for (int i = 0; i < vl[e]; i++) { v[e][i] = (char)nondet_u8(); vp_assume(v[e][i] != 0); }
		v[e][vl[e]] = 0;
	}
	if (ne == 2) vp_assume(strcmp(k[0], k[1]) != 0);
	for (int e = 0; e < ne; e++) d[String(k[e])] = String(v[e]);
	String q = Url::params(d);
	Dic<> r = Url::parseQuery(q);
	vp_assert(r.length() == ne, "query entry count");
	for (int e = 0; e < ne; e++) {
		vp_assert(r.has(String(k[e])), "query key present");
		vp_assert(r[String(k[e])] == String(v[e]), "query value equal");
	}
	vp_reach(7);
}
