SOURCES = ['Http.cpp', 'HttpServer.cpp', 'SocketServer.cpp', 'Socket.cpp', 'File.cpp', 'TextFile.cpp', 'Date.cpp', 'Xdl.cpp', 'Var.cpp', 'Path.cpp', 'String.cpp', 'unicodedata.cpp', 'util.cpp', 'WebSocket.cpp', 'SHA1.cpp']
GROUPS = [{'name': 'main', 'sources': SOURCES, 'harness': 'h_c10.cpp', 'env': ['vlibc.c', 'vsock.c', 'vstdio.c'], 'native_extra': ['vsock.c']},
          # concurrency clause: real SocketServer threads on the thread model over the listening-socket model; natively real loopback sockets
          {'name': 'conc', 'sources': SOURCES, 'harness': 'h_c10c.cpp', 'env': ['vlibc.c', 'vsrv.c', 'vstdio.c'], 'native_extra': ['vsrv_native.cpp']}]

KIND = {0: 'byte body', 1: 'byte body with status 201', 2: 'JSON body', 3: 'file body', 4: 'streamed chunk-framed body', 5: 'file range'}


def instances(tier):
    q = tier == 'quick'
    out = []
    reqlens = (0, 1, 3) if q else (0, 1, 2, 3, 5, 8)
    resplens = (0, 1, 4) if q else (0, 1, 2, 3, 4, 6, 8)
    for rl in reqlens:
        for kind in (0, 1, 2, 3, 4):
            for pl in resplens:
                if kind == 2 and pl != 1: continue
                if q and kind == 1 and pl != 1: continue
                out.append({'entry': 'h_exchange', 'params': [rl, kind, pl],
                            'bound': '%s request with %d symbolic body bytes; response: %s of %d symbolic bytes; symbolic query value, request and response header values'
                            % ('POST' if rl else 'GET', rl, KIND[kind], pl)})
    n = 6 if q else 8
    for b in range(0, n + 2):
        for e in range(0, n + 3):
            if b == e == 0: continue     # "bytes=0-0" is the library's spelling of the whole file
            if q and (b > 3 and e > 3 and e < n - 1): continue
            out.append({'entry': 'h_exchange', 'params': [0, 5, n, b, e],
                        'bound': 'GET with Range: bytes=%d-%d on a %d-byte file of symbolic bytes' % (b, e, n)})
    for kind in (0, 1):
        out.append({'entry': 'h_two_clients', 'group': 'conc', 'params': [1, kind, 3 if q else 5],
                    'bound': 'two clients in flight against HttpServer on SocketServer (accept thread + 2 handler threads), %s of %d symbolic bytes each; every interleaving with at most %d preemption(s) at system calls and atomic operations, fair hand-over at time-outs' % (('file bodies', 'byte bodies')[kind], 3 if q else 5, 1)})
    for rq, rs, fl in ([(16001, 0, 0), (0, 16001, 1), (16000, 16000, 1), (15999, 32001, 0)] if q else [(16001, 0, 0), (16000, 5, 0), (15999, 16001, 0), (0, 16001, 1), (16000, 16000, 1), (0, 15999, 1), (15999, 32001, 0), (32001, 32000, 1)]):
        out.append({'entry': 'h_big', 'params': [rq, rs, fl], 'opts': {'maxsteps': 60000000},
                    'bound': 'request body of %d bytes, response %s of %d bytes; the bytes at offsets 0, 15999, 16000, 16001 and the last one are symbolic' % (rq, 'file' if fl else 'byte body', rs)})
    for f0 in (0, 1, 2):
        for f1 in (0, 1, 2):
            out.append({'entry': 'h_keepalive', 'params': [f0, f1], 'bound': 'two requests back to back on one kept-alive server connection, framing %s then %s, symbolic bodies and query values' % (('no body', 'Content-Length', 'chunked')[f0], ('no body', 'Content-Length', 'chunked')[f1])})
    return out


BOUNDS = {'quick': 'one request/response exchange between Http::request and HttpServer::serve(Socket): request bodies of 0/1/3 symbolic bytes, responses of 0/1/4 symbolic bytes as byte body, 201, JSON, file, chunk-framed stream; bodies of 15999-32001 bytes across the 16000-byte block edges; every range b != e with b <= 7, e <= 8 on a 6-byte file (subset); symbolic printable header and query values',
          'thorough': 'request bodies to 8 bytes, responses to 8 bytes, every range b != e with b <= 9, e <= 10 on an 8-byte file'}
OUTSIDE = ['bodies with more than 8 (small) resp. 5 (large) symbolic bytes; sizes other than those around the 16000-byte receive/file block and twice that; the 128000-byte send block', 'more than two concurrent clients, more than 2 preemptions, races between plain accesses',
           'kept-alive client connections (Http::request always opens a fresh one; the server side of a kept-alive connection is covered with a raw client)', 'redirects, TLS, multipart uploads, real sockets and timeouts']
ASSUMPTIONS = ['sockets = env/vsock.c (connect() pairs the client with a server socket, the registered server callback runs to completion when the client first waits for input, then the peer is closed)',
               'files = env/vstdio.c; getaddrinfo returns one IPv4 address; clock advances per query']
