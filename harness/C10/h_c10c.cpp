// C10, concurrency clause: two clients in flight at once against the real HttpServer running on the real SocketServer
// (accept thread + one handler thread per connection) on the engine's thread model over the listening-socket model;
// each client must receive the response to its own request.  Natively: real loopback connections.
#include <asl/HttpServer.h>
#include <asl/Http.h>
#include <asl/File.h>
#include "vp.h"
#include "vsrv.h"
#include <string.h>
#include <unistd.h>
#include <time.h>
using namespace asl;

static byte g_a[8], g_b[8]; static int g_len, g_kind;
struct Srv : public HttpServer
{
	void serve(HttpRequest& req, HttpResponse& resp)
	{
		bool isa = req.path() == "/a";
		vp_assert(isa || req.path() == "/b", "the handler observes one of the two paths requested");
		if (g_kind == 0) resp.put(File(isa ? "a.bin" : "b.bin"));
		else resp.put(ByteArray(isa ? g_a : g_b, g_len));
	}
};
static int body_of(const byte* r, int n, const byte** body)
{
	for (int i = 0; i + 3 < n; i++) if (r[i] == '\r' && r[i + 1] == '\n' && r[i + 2] == '\r' && r[i + 3] == '\n') { *body = r + i + 4; return n - i - 4; }
	return -1;
}
// p0 = preemption budget, p1 = 0 file bodies / 1 byte bodies, p2 = body length
extern "C" void h_two_clients(void)
{
	vp_sched_budget(vp_param(0));
	vp_sched_fair(1);
	g_kind = vp_param(1); g_len = vp_param(2);
	for (int i = 0; i < g_len; i++) { g_a[i] = nondet_u8(); g_b[i] = nondet_u8(); }
	if (g_kind == 0) { { File f("a.bin", File::WRITE); f.write(g_a, g_len); } { File f("b.bin", File::WRITE); f.write(g_b, g_len); } }
	int answered = 0;
	{
		Srv srv;
		bool ok = srv.bind("127.0.0.1", vp_srv_port());
		vp_assume(ok);
		srv.start(true);
		const char* ra = "GET /a HTTP/1.1\r\nHost: h\r\nConnection: close\r\n\r\n";
		const char* rb = "GET /b HTTP/1.1\r\nHost: h\r\nConnection: close\r\n\r\n";
		// natively the exchange is repeated with real connections for about 3 seconds (the interleaving of the two handler
		// threads is up to the OS); symbolically it runs once and the interleavings are explored
		struct timespec t0; clock_gettime(CLOCK_MONOTONIC, &t0);
		for (int round = 0; round < (vp_symbolic_run() ? 1 : 100000); round++)
		{
			if (round) { struct timespec t; clock_gettime(CLOCK_MONOTONIC, &t); if (t.tv_sec - t0.tv_sec >= 3) break; }
			int h[2];
			h[0] = vp_cli_connect((const byte*)ra, (int)strlen(ra));
			h[1] = vp_cli_connect((const byte*)rb, (int)strlen(rb));
			vp_assume(h[0] >= 0 && h[1] >= 0);
			// the clients wait for their answers (stop() would make the handlers give up)
			if (vp_symbolic_run())
			{
				for (int tries = 0; tries < 40 && !(vp_srv_closed_by_server(h[0]) && vp_srv_closed_by_server(h[1])); tries++) usleep(1000);
				vp_assert(vp_srv_closed_by_server(h[0]) && vp_srv_closed_by_server(h[1]), "both connections were served and closed while the clients waited");
			}
			answered = 0;
			for (int i = 0; i < 2; i++)
			{
				static byte r[400]; int n = vp_cli_recv(h[i], r, 400);
				const byte* body = 0; int bl = n > 0 ? body_of(r, n < 400 ? n : 400, &body) : -1;
				vp_assert(n > 12 && !memcmp(r, "HTTP/1.1 200", 12), "the client gets a 200 response");
				vp_assert(bl == g_len, "the client receives a body of the length of its own resource");
				const byte* mine = i ? g_b : g_a;
				for (int k = 0; k < g_len && k < bl; k++) vp_assert(body[k] == mine[k], "with two clients in flight each receives the response to its own request");
				answered++;
				vp_cli_close(h[i]);
			}
		}
		srv.stop(true);
	}
	if (!vp_symbolic_run()) usleep(300000);
	if (vp_symbolic_run()) vp_reach(10 + answered);
	vp_reach(3);
}
