// C10 harness: one HTTP exchange between the library's client (Http::request) and the library's server (HttpServer::serve)
// over the socket model; the server runs synchronously when the client blocks for the response.
#include <asl/Http.h>
#include <asl/HttpServer.h>
#include <asl/Socket.h>
#include <asl/File.h>
#include "vp.h"
#include "vsock.h"
#include <string.h>
using namespace asl;

static byte g_reqbody[8]; static int g_reqlen; static char g_hv[4]; static char g_qv[2];
static byte g_respbody[8]; static int g_resplen; static char g_rv[4]; static int g_kind; static const char* g_method;
static int g_served; static int g_rb, g_re;

struct Srv : public HttpServer
{
	void serve(HttpRequest& req, HttpResponse& resp)
	{
		g_served++;
		vp_assert(req.method() == g_method, "handler observes the method sent");
		vp_assert(req.path() == "/p q/r", "handler observes the decoded path");
		vp_assert(req.query("k") == g_qv, "handler observes the query value");
		vp_assert(req.query("p") == "a+b c&d", "handler observes a query value with encoded plus, space and ampersand exactly as meant");
		vp_assert(req.header("X-Req") == g_hv && req.header("x-req") == g_hv, "handler observes the request header");
		vp_assert(req.body().length() == g_reqlen, "handler observes the body length sent");
		for (int i = 0; i < g_reqlen && i < req.body().length(); i++) vp_assert(req.body()[i] == g_reqbody[i], "handler observes the body bytes sent");
		resp.setCode(g_kind == 1 ? 201 : 200);
		resp.setHeader("X-Resp", g_rv);
		if (g_kind == 4) {                      // streamed, chunk-framed response written in two pieces
			resp.setHeader("Transfer-Encoding", "chunked");
			int k = g_resplen / 2;
			resp.write((const char*)g_respbody, k);
			resp.write((const char*)g_respbody + k, g_resplen - k);
		}
		else if (g_kind == 5) { vp_assert(req.header("Range").ok(), "handler observes the Range header"); resp.put(File("body.bin")); }
		else if (g_kind == 2) { Var v; v["n"] = (int)g_respbody[0]; v["s"] = "ok"; resp.put(v); }
		else if (g_kind == 3) resp.put(File("body.bin"));
		else resp.put(ByteArray(g_respbody, g_resplen));
	}
};
static void server_side(int fd)
{
	Srv srv;
	SocketServer* base = &srv;
	Socket s(fd);
	base->serve(s);
}

// p0 = request body length (0: GET), p1 = response kind (0 bytes / 1 bytes+201 / 2 JSON / 3 file / 4 chunked stream / 5 file range [p3,p4]), p2 = response body length
extern "C" void h_exchange(void)
{
	g_reqlen = vp_param(0); g_kind = vp_param(1); g_resplen = vp_param(2); g_served = 0;
	g_method = g_reqlen ? "POST" : "GET";
	for (int i = 0; i < g_reqlen; i++) g_reqbody[i] = nondet_u8();            // any byte: CR, LF, NUL included
	for (int i = 0; i < g_resplen; i++) g_respbody[i] = nondet_u8();
	for (int i = 0; i < 2; i++) { g_hv[i] = (char)nondet_u8(); vp_assume(g_hv[i] > 32 && g_hv[i] < 127); g_rv[i] = (char)nondet_u8(); vp_assume(g_rv[i] > 32 && g_rv[i] < 127); }
	g_hv[2] = 0; g_rv[2] = 0;
	g_qv[0] = (char)nondet_u8(); vp_assume((g_qv[0] >= 'a' && g_qv[0] <= 'z') || (g_qv[0] >= '0' && g_qv[0] <= '9')); g_qv[1] = 0;
	if (g_kind == 3 || g_kind == 5) { File f("body.bin", File::WRITE); f.write(g_respbody, g_resplen); }
	vp_sock_set_server(server_side);
	String url("http://host.example/p%20q/r?p=a%2Bb+c%26d&k="); url += (const char*)g_qv;
	HttpRequest req(g_method, url);
	req.setHeader("X-Req", g_hv);
	if (g_kind == 5) { g_rb = vp_param(3); g_re = vp_param(4); req.setHeader("Range", String(0, "bytes=%i-%i", g_rb, g_re)); }
	int sent_re = g_re; (void)sent_re;
	if (g_reqlen) req.put(ByteArray(g_reqbody, g_reqlen));
	HttpResponse res = Http::request(req);
	vp_assert(g_served == 1, "the handler ran exactly once for the request");
	if (g_kind == 5)
	{
		if (g_re == 0) g_re = g_resplen - 1;      // "bytes=b-0" is the library's spelling of the open-ended range b-
		if (g_rb == g_re)      // single-byte range: the library may refuse it (416), but a 206 must carry exactly that byte
		{
			vp_assert(res.code() == 416 || res.code() == 206, "a single-byte range is answered with 206 or 416");
			if (res.code() == 206) {
				vp_assert(res.body().length() == 1 && g_rb < g_resplen && res.body()[0] == g_respbody[g_rb], "a 206 for [b,b] carries exactly that byte");
				vp_assert((int)res.header("Content-Length") == 1, "Content-Length of a 206 for [b,b]");
			}
			vp_note(res.code()); vp_reach(1);
			return;
		}
		if (g_re >= g_resplen || g_rb > g_re)     // not satisfiable: no partial content is claimed (the body of the 416 is not constrained)
		{
			vp_assert(res.code() == 416, "client observes 416, not partial content, for a range that reaches outside the file");
			vp_note(res.code()); vp_reach(1);
			return;
		}
		// a satisfiable range [b,e], b < e <= last byte: 206 with exactly those bytes and a matching Content-Range
		vp_assert(res.code() == 206, "client observes 206 for a satisfiable byte range");
		vp_assert(res.header("Content-Range") == String(0, "bytes %i-%i/%i", g_rb, g_re, g_resplen), "client observes the Content-Range of the range it asked for");
		vp_assert(res.body().length() == g_re - g_rb + 1, "client observes exactly the bytes of the range");
		for (int i = 0; i < res.body().length() && g_rb + i < g_resplen; i++) vp_assert(res.body()[i] == g_respbody[g_rb + i], "range body bytes are the file bytes at [b,e]");
		vp_note(res.code()); vp_reach(1);
		return;
	}
	vp_assert(res.code() == (g_kind == 1 ? 201 : 200), "client observes the status code the handler set");
	vp_assert(res.header("X-Resp") == g_rv, "client observes the response header");
	if (g_kind == 2) {
		Var v = res.json();
		vp_assert(v.ok() && (int)v["n"] == (int)g_respbody[0] && v["s"] == "ok", "client observes the JSON body");
	} else {
		vp_assert(res.body().length() == g_resplen, "client observes the body length the handler produced");
		for (int i = 0; i < g_resplen && i < res.body().length(); i++) vp_assert(res.body()[i] == g_respbody[i], "client observes the body bytes the handler produced");
	}
	vp_note(res.code());
	vp_reach(1);
}

// kept-alive server connection: a raw client sends a request, waits for the response and sends a second request on the same
// connection, then closes (p0, p1 = framing of the first / second: 0 no body, 1 Content-Length, 2 chunked); both handlers
// observe exactly their own request and both responses are written in order.
static int g_kn; static int g_kbodylen[2]; static byte g_kbody[2][4]; static char g_kq[2];
struct KSrv : public HttpServer
{
	void serve(HttpRequest& req, HttpResponse& resp)
	{
		int i = g_kn++;
		vp_assert(i < 2, "the handler ran more often than requests were sent");
		if (i >= 2) return;
		char q[2] = { g_kq[i], 0 };
		vp_assert(req.path() == (i ? "/second" : "/first"), "handler observes the path of its own request");
		vp_assert(req.query("k") == q, "handler observes the query of its own request");
		vp_assert(req.body().length() == g_kbodylen[i], "handler observes the body length of its own request");
		for (int k = 0; k < g_kbodylen[i] && k < req.body().length(); k++) vp_assert(req.body()[k] == g_kbody[i][k], "handler observes the body bytes of its own request");
		char r[3] = { 'r', (char)('0' + i), 0 };
		resp.put(String(r));
	}
};
static int put(char* t, int n, const char* s) { while (*s) t[n++] = *s++; return n; }
static char g_kreq[2][200]; static int g_kreqlen[2]; static int g_kstage;
static void client_idle(int fd)
{
	// the client has nothing more to say until the server answered the request sent so far
	byte tmp[4]; int sent = vp_sock_sent(fd, tmp, 0);
	if (g_kstage == 1 && sent > 0) { vp_sock_feed(fd, g_kreq[1], g_kreqlen[1]); g_kstage = 2; }
	else vp_sock_peer_close(fd);
}
extern "C" void h_keepalive(void)
{
	int fr[2] = { vp_param(0), vp_param(1) };
	g_kn = 0;
	for (int i = 0; i < 2; i++)
	{
		char* t = g_kreq[i]; int n = 0;
		g_kbodylen[i] = fr[i] ? 3 : 0;
		for (int k = 0; k < g_kbodylen[i]; k++) g_kbody[i][k] = nondet_u8();
		g_kq[i] = (char)nondet_u8(); vp_assume(g_kq[i] >= 'a' && g_kq[i] <= 'z');
		n = put(t, n, fr[i] ? "POST " : "GET "); n = put(t, n, i ? "/second?k=" : "/first?k="); t[n++] = g_kq[i];
		n = put(t, n, " HTTP/1.1\r\nHost: h\r\nConnection: keep-alive\r\n");
		if (fr[i] == 1) { n = put(t, n, "Content-Length: 3\r\n\r\n"); for (int k = 0; k < 3; k++) t[n++] = (char)g_kbody[i][k]; }
		else if (fr[i] == 2) { n = put(t, n, "Transfer-Encoding: chunked\r\n\r\n2\r\n"); t[n++] = (char)g_kbody[i][0]; t[n++] = (char)g_kbody[i][1]; n = put(t, n, "\r\n1\r\n"); t[n++] = (char)g_kbody[i][2]; n = put(t, n, "\r\n0\r\n\r\n"); }
		else n = put(t, n, "\r\n");
		g_kreqlen[i] = n;
	}
	int fd = vp_sock_new();
	vp_sock_feed(fd, g_kreq[0], g_kreqlen[0]); g_kstage = 1;
	vp_sock_on_idle(fd, client_idle);
	{
		KSrv srv;
		SocketServer* base = &srv;
		Socket s(fd);
		base->serve(s);
	}
	vp_assert(g_kn == 2, "both requests on the kept-alive connection were handled");
	static byte out[1200]; int ol = vp_sock_sent(fd, out, 1200);
	int nresp = 0, r0 = -1, r1 = -1;
	for (int i = 0; i + 8 < ol; i++) if (!memcmp(out + i, "HTTP/1.1 ", 9)) nresp++;
	for (int i = 0; i + 1 < ol; i++) { if (out[i] == 'r' && out[i + 1] == '0' && r0 < 0) r0 = i; if (out[i] == 'r' && out[i + 1] == '1' && r1 < 0) r1 = i; }
	vp_assert(nresp == 2, "one response per request was written");
	vp_assert(r0 >= 0 && r1 > r0, "the responses carry their own bodies, in request order");
	vp_note(ol);
	vp_reach(2);
}

// bodies around the 16000-byte receive/file block: p0 = request body size, p1 = response body size (0: none), p2 = 1: the
// response is a file.  The bytes at the block edges (and first/last) are symbolic, the rest is a concrete pattern.
static byte g_big[2][33000]; static int g_bign[2]; static int g_bigfile;
struct BigSrv : public HttpServer
{
	void serve(HttpRequest& req, HttpResponse& resp)
	{
		g_served++;
		vp_assert(req.body().length() == g_bign[0], "handler observes the length of a body that spans several blocks");
		int n = req.body().length() < g_bign[0] ? req.body().length() : g_bign[0];
		int bad = 0; for (int i = 0; i < n; i++) if (req.body()[i] != g_big[0][i]) bad++;
		vp_assert(bad == 0, "handler observes every byte of a body that spans several blocks");
		if (g_bigfile) resp.put(File("big.bin")); else resp.put(ByteArray(g_big[1], g_bign[1]));
	}
};
static void big_server_side(int fd) { BigSrv srv; SocketServer* base = &srv; Socket s(fd); base->serve(s); }
extern "C" void h_big(void)
{
	g_bign[0] = vp_param(0); g_bign[1] = vp_param(1); g_bigfile = vp_param(2); g_served = 0;
	for (int k = 0; k < 2; k++) {
		int n = g_bign[k];
		for (int i = 0; i < n; i++) g_big[k][i] = (byte)(i * 31 + 7 + k);
		int at[5] = { 0, 15999, 16000, 16001, n - 1 };
		for (int j = 0; j < 5; j++) if (at[j] >= 0 && at[j] < n) g_big[k][at[j]] = nondet_u8();
	}
	if (g_bigfile) { File f("big.bin", File::WRITE); f.write(g_big[1], g_bign[1]); }
	vp_sock_set_server(big_server_side);
	HttpRequest req(g_bign[0] ? "POST" : "GET", "http://host.example/big");
	if (g_bign[0]) req.put(ByteArray(g_big[0], g_bign[0]));
	HttpResponse res = Http::request(req);
	vp_assert(g_served == 1, "the handler ran exactly once");
	vp_assert(res.code() == 200, "status 200");
	vp_assert(res.body().length() == g_bign[1], "client observes the length of a body that spans several blocks");
	int n = res.body().length() < g_bign[1] ? res.body().length() : g_bign[1];
	int bad = 0; for (int i = 0; i < n; i++) if (res.body()[i] != g_big[1][i]) bad++;
	vp_assert(bad == 0, "client observes every byte of a body that spans several blocks");
	vp_note(res.body().length());
	vp_reach(3);
}
