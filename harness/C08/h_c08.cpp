// C08 harnesses: UTF-8/16/32 conversions, count/chars/iteration, case mapping
#include <asl/String.h>
#include <asl/Array.h>
#include "vp.h"
using namespace asl;

// standard UTF-8 encoding (reference)
static int ref_utf8(unsigned c, byte* o)
{
	if (c < 0x80) { o[0] = (byte)c; return 1; }
	if (c < 0x800) { o[0] = 0xC0 | (c >> 6); o[1] = 0x80 | (c & 63); return 2; }
	if (c < 0x10000) { o[0] = 0xE0 | (c >> 12); o[1] = 0x80 | ((c >> 6) & 63); o[2] = 0x80 | (c & 63); return 3; }
	o[0] = 0xF0 | (c >> 18); o[1] = 0x80 | ((c >> 12) & 63); o[2] = 0x80 | ((c >> 6) & 63); o[3] = 0x80 | (c & 63); return 4;
}
static int ref_utf16(unsigned c, unsigned* o)
{
	if (c < 0x10000) { o[0] = c; return 1; }
	c -= 0x10000; o[0] = 0xD800 + (c >> 10); o[1] = 0xDC00 + (c & 0x3ff); return 2;
}
static unsigned scalar()
{
	unsigned c = nondet_u32();
	vp_assume(c >= 1 && c <= 0x10FFFF && !(c >= 0xD800 && c <= 0xDFFF));
	return c;
}

// p0 = number of scalar values (1..3): UTF-32 -> UTF-8 is the standard encoding, -> UTF-32 returns the original;
// UTF-8 -> UTF-16 is the standard encoding, -> UTF-8 returns the original.  All buffers are exact-size heap blocks.
extern "C" void h_utf_roundtrip(void)
{
	int k = vp_param(0);
	unsigned c[4]; byte ref[20]; int rl = 0; unsigned r16[8]; int r16l = 0;
	for (int i = 0; i < k; i++) { c[i] = scalar(); rl += ref_utf8(c[i], ref + rl); r16l += ref_utf16(c[i], r16 + r16l); }
	rl = vp_concretize(rl);
	r16l = vp_concretize(r16l);
	int* in = (int*)malloc((k + 1) * sizeof(int));
	for (int i = 0; i < k; i++) in[i] = (int)c[i];
	in[k] = 0;
	char* u8 = (char*)malloc(rl + 1);
	int n8 = utf32toUtf8(in, u8, k);
	vp_assert(n8 == rl, "utf32toUtf8 length is that of the standard encoding");
	for (int i = 0; i < rl; i++) vp_assert((byte)u8[i] == ref[i], "utf32toUtf8 bytes are the standard encoding");
	vp_assert(u8[rl] == 0, "utf32toUtf8 terminates its output");
	int* back = (int*)malloc((k + 1) * sizeof(int));
	int nb = utf8toUtf32(u8, back, k);
	vp_assert(nb == k, "utf8toUtf32 count");
	for (int i = 0; i < k; i++) vp_assert(back[i] == (int)c[i], "utf8toUtf32 returns the original scalar");
	vp_assert(back[k] == 0, "utf8toUtf32 terminates its output");
	wchar_t* w = (wchar_t*)malloc((r16l + 1) * sizeof(wchar_t));
	int nw = utf8toUtf16(u8, w, rl);
	vp_assert(nw == r16l, "utf8toUtf16 length");
	for (int i = 0; i < r16l; i++) vp_assert((unsigned)w[i] == r16[i], "utf8toUtf16 units are the standard encoding");
	vp_assert(w[r16l] == 0, "utf8toUtf16 terminates its output");
	char* u8b = (char*)malloc(rl + 1);
	int n8b = utf16toUtf8(w, u8b, r16l);
	vp_assert(n8b == rl, "utf16toUtf8 length");
	for (int i = 0; i <= rl; i++) vp_assert(u8b[i] == u8[i], "utf16toUtf8 returns the original bytes");
	vp_note(n8); vp_note(nw);
	free(in); free(u8); free(back); free(w); free(u8b);
	vp_reach(1);
}

// p0 = number of scalars (1..3): count(), chars() and code-point iteration agree on number and values; fromCodes inverts chars
extern "C" void h_count_chars(void)
{
	int k = vp_param(0);
	unsigned c[4]; byte ref[20]; int rl = 0;
	for (int i = 0; i < k; i++) { c[i] = scalar(); rl += ref_utf8(c[i], ref + rl); }
	rl = vp_concretize(rl);
	ref[rl] = 0;
	String s((const char*)ref);
	vp_assert(s.length() == rl, "length is the byte count");
	vp_assert(s.count() == k, "count() is the number of scalar values");
	Array<int> ch = s.chars();
	vp_assert(ch.length() == k, "chars() has one element per scalar value");
	for (int i = 0; i < k && i < ch.length(); i++) vp_assert(ch[i] == (int)c[i], "chars() values");
	int j = 0;
	for (String::Enumerator e = s.all(); e; ++e) { int code = *e; vp_assert(j < k && code == (int)c[j], "iteration yields the scalar values in order"); j++; }
	vp_assert(j == k, "iteration visits every scalar value once");
	String t = String::fromCodes(ch);
	vp_assert(t == s, "fromCodes(chars()) is the original string");
	vp_note(s.count());
	vp_reach(2);
}

// p0 = total length, p1 = number of trailing symbolic bytes (the rest is 'a' filler): every decoder / counter /
// iterator / case function on arbitrary (ill-formed, truncated, overlong) bytes stays in bounds and terminates;
// case mapping never produces more bytes than its input.  Lengths 15 and 23 put the terminator at the last byte
// of the inline buffer resp. of the heap block.
extern "C" void h_bytes_any(void)
{
	int n = vp_param(0), nsym = vp_param(1);
	char* t = (char*)malloc(n + 1);
	for (int i = 0; i < n; i++) {
		if (i >= n - nsym) { t[i] = (char)nondet_u8(); vp_assume(t[i] != 0); } else t[i] = 'a';
	}
	t[n] = 0;
	int* o32 = (int*)malloc((n + 1) * sizeof(int));
	int n32 = utf8toUtf32(t, o32, n);
	vp_assert(n32 >= 0 && n32 <= n, "utf8toUtf32 produces at most one code per byte");
	wchar_t* o16 = (wchar_t*)malloc((n + 1) * sizeof(wchar_t));
	int n16 = utf8toUtf16(t, o16, n);
	vp_assert(n16 >= 0 && n16 <= n, "utf8toUtf16 produces at most one unit per byte");
	String s(t);
	vp_assert(s.length() == n, "String length");
	int cnt = s.count();
	vp_assert(cnt >= 0 && cnt <= n, "count() within [0,length]");
	Array<int> ch = s.chars();
	vp_assert(ch.length() <= n, "chars() length bounded");
	int it = 0;
	for (String::Enumerator e = s.all(); e; ++e) { (void)*e; it++; vp_assert(it <= n, "iteration terminates within the string"); }
	vp_note(cnt); vp_note(n32); vp_note(n16);
	free(t); free(o32); free(o16);
	vp_reach(3);
}

// p0 = total length, p1 = trailing symbolic bytes: case mapping and case-insensitive comparison of arbitrary bytes stay in
// bounds, terminate, and never produce more bytes than the input
extern "C" void h_case_any(void)
{
	int n = vp_param(0), nsym = vp_param(1);
	char* t = (char*)malloc(n + 1);
	for (int i = 0; i < n; i++) {
		if (i >= n - nsym) { t[i] = (char)nondet_u8(); vp_assume(t[i] != 0); } else t[i] = 'a';
	}
	t[n] = 0;
	String s(t);
	String up = s.toUpperCase();
	String lo = s.toLowerCase();
	vp_assert(up.length() <= n, "toUpperCase output no longer than input");
	vp_assert(lo.length() <= n, "toLowerCase output no longer than input");
	bool eq = s.equalsNocase(s);
	vp_assert(eq, "equalsNocase(s,s)");
	vp_note(up.length()); vp_note(lo.length());
	free(t);
	vp_reach(6);
}

// p0, p1 = number of scalars in a and b (values below 0x800 so that both case tables and the pass-through range are hit):
// equalsNocase(a,b) <=> toLowerCase(a) == toLowerCase(b)
extern "C" void h_nocase(void)
{
	int ka = vp_param(0), kb = vp_param(1), hi = vp_param(2);
	byte a[16], b[16]; int la = 0, lb = 0;
	for (int i = 0; i < ka; i++) { unsigned c = scalar(); vp_assume(c < (unsigned)hi); la += ref_utf8(c, a + la); }
	for (int i = 0; i < kb; i++) { unsigned c = scalar(); vp_assume(c < (unsigned)hi); lb += ref_utf8(c, b + lb); }
	la = vp_concretize(la); lb = vp_concretize(lb);
	a[la] = 0; b[lb] = 0;
	String A((const char*)a), B((const char*)b);
	bool e1 = A.equalsNocase(B);
	bool e2 = A.toLowerCase() == B.toLowerCase();
	vp_assert(e1 == e2, "equalsNocase(a,b) equals (lower(a) == lower(b))");
	vp_assert(A.equalsNocase(A), "equalsNocase is reflexive");
	vp_note(e1);
	vp_reach(4);
}

// ASCII case mappings are those of the C locale (every c in 1..127)
extern "C" void h_ascii_case(void)
{
	char t[2]; t[0] = (char)nondet_u8(); t[1] = 0;
	vp_assume(t[0] > 0);
	String s(t);
	String u = s.toUpperCase(), l = s.toLowerCase();
	char c = t[0];
	char cu = (c >= 'a' && c <= 'z') ? c - 32 : c, cl = (c >= 'A' && c <= 'Z') ? c + 32 : c;
	vp_assert(u.length() == 1 && (*u)[0] == cu, "toUpperCase on ASCII is the C-locale toupper");
	vp_assert(l.length() == 1 && (*l)[0] == cl, "toLowerCase on ASCII is the C-locale tolower");
	vp_reach(5);
}

// UTF-8 -> wchar_t conversion held inside the String (operator const wchar_t*, wlength()): p0 = byte length, last two bytes symbolic ASCII
extern "C" void h_wide(void)
{
	int L = vp_param(0);
	char t[40];
	for (int i = 0; i < L; i++) t[i] = (char)('a' + i % 26);
	for (int i = L - 2; i < L; i++) if (i >= 0) { char c = (char)nondet_u8(); vp_assume(c > 0 && c < 127); t[i] = c; }
	t[L] = 0;
	String s(t);
	const wchar_t* w = s;
	vp_assert((int)s.wlength() == L, "wlength() of ASCII text is its length");
	for (int i = 0; i < L; i++) vp_assert(w[i] == (wchar_t)(unsigned char)t[i], "wide characters equal the scalar values");
	vp_assert(w[L] == 0, "wide text is terminated inside its buffer");
	vp_assert(s == t && s.length() == L, "the UTF-8 text is unchanged by the conversion");
	vp_note(L);
	vp_reach(7);
}

// String(const Array<wchar_t>&): p0 = number of scalar values (0: empty array); the array is exactly as long as the wide text
// (no terminator), so reading one unit too many is an out-of-bounds access
extern "C" void h_from_wide_array(void)
{
	int k = vp_param(0);
	Array<wchar_t> w; byte ref[16]; int rl = 0;
	for (int i = 0; i < k; i++) {
		unsigned c = nondet_u32(); vp_assume(c >= 1 && c <= 0x10FFFF && !(c >= 0xD800 && c <= 0xDFFF));
		rl += ref_utf8(c, ref + rl);
		// asl's wide strings hold UTF-16 units whatever sizeof(wchar_t) is
		if (c < 0x10000) w << (wchar_t)c;
		else { unsigned v = c - 0x10000; w << (wchar_t)(0xD800 + (v >> 10)) << (wchar_t)(0xDC00 + (v & 0x3ff)); }
	}
	rl = vp_concretize(rl);
	String s(w);
	vp_assert(s.length() == rl, "String(Array<wchar_t>) has the UTF-8 length of the scalar values");
	for (int i = 0; i < rl && i < s.length(); i++) vp_assert((byte)(*s)[i] == ref[i], "String(Array<wchar_t>) bytes");
	vp_note(rl);
	vp_reach(8);
}
