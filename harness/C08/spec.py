SOURCES = ['String.cpp', 'unicodedata.cpp']
HARNESS = 'h_c08.cpp'
ENV = ['vlibc.c']


def instances(tier):
    q = tier == 'quick'
    out = []
    for k in (1, 2, 3):
        out.append({'entry': 'h_utf_roundtrip', 'params': [k], 'bound': 'every sequence of %d Unicode scalar values (all 1 112 064 each)' % k})
        out.append({'entry': 'h_count_chars', 'params': [k], 'bound': 'every sequence of %d Unicode scalar values' % k})
    for n in range(1, 5 if q else 6):
        out.append({'entry': 'h_bytes_any', 'params': [n, n], 'bound': 'every NUL-free byte string of length %d' % n})
    for n in (14, 15, 16, 22, 23, 24, 47):
        out.append({'entry': 'h_bytes_any', 'params': [n, 3 if q else 4], 'bound': 'strings of length %d (terminator flush with the buffer end for 15/23/47): a-filler + every %d-byte tail' % (n, 3 if q else 4)})
    for n in ((1, 2) if q else (1, 2, 3)):
        out.append({'entry': 'h_case_any', 'params': [n, n], 'bound': 'every NUL-free byte string of length %d' % n})
    for n in (15, 23):
        out.append({'entry': 'h_case_any', 'params': [n, 1 if q else 2], 'bound': 'length %d: a-filler + every %d-byte tail' % (n, 1 if q else 2)})
    out.append({'entry': 'h_nocase', 'params': [1, 1, 0x250 if q else 0x800], 'bound': 'all pairs of single scalar values below %s' % ('U+0250' if q else 'U+0800')})
    if not q:
        out.append({'entry': 'h_nocase', 'params': [2, 1, 0x100], 'bound': 'a: 2 scalars, b: 1 scalar, below U+0100'})
        out.append({'entry': 'h_nocase', 'params': [2, 2, 0x80], 'bound': 'all pairs of 2-scalar ASCII strings'})
    out.append({'entry': 'h_ascii_case', 'params': [], 'bound': 'every ASCII character 1..127'})
    for L in ((0, 1, 3, 4, 5, 8, 12, 13, 15, 16, 17) if q else tuple(range(0, 34))):
        out.append({'entry': 'h_wide', 'params': [L], 'bound': 'String of %d bytes (last two symbolic ASCII) converted to wchar_t in place (operator const wchar_t*, wlength)' % L})
    for k in ((0, 1, 2) if q else (0, 1, 2, 3)):
        out.append({'entry': 'h_from_wide_array', 'params': [k], 'bound': 'String(Array<wchar_t>) for every sequence of %d scalar value(s), array without terminator' % k})
    return out


BOUNDS = {'quick': 'round trips: every sequence of 1-3 scalar values; decoders/count/chars/iteration: every byte string of length <= 4 plus every 3-byte tail at lengths 14..47; case mapping: every byte string of length <= 2 plus 1-byte tails at 15/23; equalsNocase vs lower-case equality: all pairs of scalars below U+0250',
          'thorough': 'as quick with byte strings to length 5 (4-byte tails), case mapping to length 3, equalsNocase pairs below U+0800 and 2-scalar strings'}
OUTSIDE = ['sequences of more than 3 scalar values', 'arbitrary byte strings longer than 5', 'case mapping of arbitrary strings longer than 3 bytes', 'local-8-bit (ASL_ANSI) conversions, wcstombs/mbstowcs']
ASSUMPTIONS = ['case tables are read from the real unicodedata.cpp and handed to z3 as array constants with one axiom per entry']
