SOURCES = ['String.cpp']
HARNESS = 'h_c02.cpp'
ENV = ['vlibc.c']


def instances(tier):
    q = tier == 'quick'
    out = []
    for n0 in (0, 1, 2, 3):
        out.append({'entry': 'h_map_hist', 'params': [2 if (q or n0 == 3) else 3, n0, 5, 0, 0], 'bound': 'Map<int,int>: %d symbolic initial entries then symbolic ops, keys 0..5, values any int' % n0})
    out.append({'entry': 'h_map_hist', 'params': [1, 2, 4, 9, 0], 'bound': 'Map<int,int>: keys in {-2e9,-1e9,0,1e9,2e9} (key differences overflow int), 2 symbolic entries + 1 op'})
    out.append({'entry': 'h_map_hist', 'params': [1, 3, 4, 9, 0], 'bound': 'Map<int,int>: wide keys, 3 symbolic entries + 1 op'})
    if not q:
        out.append({'entry': 'h_map_hist', 'params': [1, 6, 8, 0, 1], 'bound': 'Map<int,int>: 6 initial entries (keys 0..8) then 1 op'})
    for kind, what in ((1, 'HashMap(2)'), (2, 'HashMap(4)'), (3, 'default 256-bucket table, all keys in one bucket')):
        out.append({'entry': 'h_hash_hist', 'params': [2, 2, 3 if kind != 2 else 7, kind, 0], 'bound': '%s: 2 initial entries then 2 symbolic ops' % what})
        out.append({'entry': 'h_hash_hist', 'params': [2 if not q else 1, 4 if kind != 2 else 5, 5 if kind != 2 else 7, kind, 1], 'bound': '%s: 4-5 initial entries with concrete keys 0..n-1 (crosses the 7/8 growth threshold) then 1 op' % what})
        if not q:
            out.append({'entry': 'h_hash_hist', 'params': [3, 1, 3, kind, 0], 'bound': '%s: 3 symbolic ops' % what})
    for n, ln in ((2, 3), (3, 3), (2, 17), (2, 20)) if q else ((2, 3), (3, 3), (4, 3), (2, 16), (3, 17), (3, 20), (2, 24)):
        out.append({'entry': 'h_dic_prefix', 'params': [n, ln], 'bound': '%d String keys of length %d sharing all but the last (symbolic) byte' % (n, ln)})
    for n, r in ((2, 1),) if q else ((2, 1), (3, 1)):
        out.append({'entry': 'h_hashdic_collide', 'params': [n, r], 'bound': '%d inserts then %d removes of 2-byte keys over {A,B,a,b} ("Ab"/"BA" collide)' % (n, r)})
    for p in ([2, 1, 7, 4], [2, 2, 3, 8]) if q else ([2, 1, 7, 4], [2, 2, 3, 8], [3, 1, 5, 2], [3, 2, 7, 4], [3, 3, 3, 16]):
        out.append({'entry': 'h_set_algebra', 'params': p, 'bound': 'sets of %d and %d symbolic elements in 0..%d, second copy built in reverse order with table size %d' % tuple(p)})
    out.append({'entry': 'h_hash_grow', 'params': [230 if q else 300], 'bound': 'default HashMap filled with %d keys i*65537+3 (crosses the growth threshold, hash bits above bit 16), then find/overwrite/remove/enumerate at a symbolic key' % (230 if q else 300)})
    out.append({'entry': 'h_map_convert', 'params': [], 'bound': 'Map<int,int> with every 3 keys in -3..3 converted to Map<unsigned,int>'})
    return out


BOUNDS = {'quick': 'ordered maps with 0-3 symbolic entries + 2 symbolic ops; hash maps with 2/4/256 buckets, 2-5 entries (colliding keys, growth threshold crossed) + 1-2 ops; 2-3 String keys with common prefixes of 2/16/19 bytes; colliding HashDic keys; set algebra on sets of up to 3 elements built in two orders and two table sizes',
          'thorough': 'as quick with 3 ops, 6-entry maps, more key shapes and larger sets'}
OUTSIDE = ['more than 8 entries', 'tables beyond one growth step', 'the 280 000-bucket cap', 'Map with non-int/non-String keys']
ASSUMPTIONS = []
