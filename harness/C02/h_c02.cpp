// C02 harnesses: Map / Dic / HashMap / HashDic / Set against finite-map and set models
#include <asl/Map.h>
#include <asl/HashMap.h>
#include <asl/Set.h>
#include <asl/String.h>
#include "vp.h"
using namespace asl;

#define MAXE 12
struct Model { int k[MAXE], v[MAXE]; int n;
	int find(int key) const { for (int i = 0; i < n; i++) if (k[i] == key) return i; return -1; }
	void set(int key, int val) { int i = find(key); if (i < 0) { i = n++; k[i] = key; } v[i] = val; }
	void remove(int key) { int i = find(key); if (i < 0) return; for (; i + 1 < n; i++) { k[i] = k[i + 1]; v[i] = v[i + 1]; } n--; }
};

template<class M>
static void check_map(const M& m, const Model& r, bool ordered, const char* msg)
{
	vp_assert(m.length() == r.n, msg);
	for (int i = 0; i < r.n; i++) {
		vp_assert(m.has(r.k[i]), msg);
		const int* p = m.find(r.k[i]);
		vp_assert(p != 0 && *p == r.v[i], msg);
	}
	// enumeration: each entry exactly once (and ascending for ordered maps)
	int cnt = 0; int seen[MAXE]; int prev = 0;
	for (typename M::Enumerator e = m.all(); e; ++e) {
		int key = ~e, val = *e;
		vp_assert(cnt < r.n, "enumeration visits no more than length() entries");
		int j = r.find(key);
		vp_assert(j >= 0 && r.v[j] == val, "enumeration yields pairs of the map");
		for (int q = 0; q < cnt; q++) vp_assert(seen[q] != key, "enumeration visits each key once");
		if (ordered && cnt > 0) vp_assert(prev < key, "enumeration in ascending key order");
		seen[cnt++] = key; prev = key;
	}
	vp_assert(cnt == r.n, "enumeration visits every entry");
}

// keys: symbolic in [0, p2]; p0 = ops, p1 = initial entries, p3 = kind (0 Map<int,int>, 1 HashMap(2), 2 HashMap(4), 3 HashMap() with keys = 256*k+5)
// merge (Map only): into an empty map and into the map under test; the maps stay independent afterwards
template<class M> struct Merge { static void run(M&, Model&, int) {} enum { OPS = 6 }; };
template<> struct Merge<Map<int, int> >
{
	enum { OPS = 7 };
	static void run(Map<int, int>& m, Model& r, int k)
	{
		Map<int, int> t;
		t.add(m);                                   // merge into an empty map
		vp_assert(t.length() == r.n, "merging into an empty map gives the same number of keys");
		int v = (int)nondet_u32();
		t.set(k, v);                                // ... and the two maps do not share storage afterwards
		if (r.find(k) >= 0) vp_assert(m[k] == r.v[r.find(k)], "changing the merged map leaves the source untouched"); else vp_assert(!m.has(k), "changing the merged map adds nothing to the source");
		Map<int, int> o; int v2 = (int)nondet_u32();
		o.set(k, v2);
		vp_assume(r.n < MAXE - 1);
		m.add(o); r.set(k, v2);                     // merge another map into the map under test
		o.set(k, v2 + 1);
		vp_assert(m[k] == v2, "changing the merged-in map afterwards leaves the target untouched");
	}
};
template<class M>
static void map_hist(M& m, bool ordered, int mul, int add)
{
	int nops = vp_param(0), n0 = vp_param(1), kmax = vp_param(2);
	Model r; r.n = 0;
	int conc = vp_param(4);     // 1: initial keys are 0..n0-1 (concrete), only their values symbolic
	for (int i = 0; i < n0; i++) { int k = (conc ? i : vp_range(0, kmax)) * mul + add; int v = (int)nondet_u32(); m.set(k, v); r.set(k, v); }
	check_map(m, r, ordered, "initial map equals model");
	M cl = m.clone(); Model cr = r;
	for (int s = 0; s < nops; s++) {
		int op = vp_concretize(vp_range(0, Merge<M>::OPS - 1));
		int k = vp_range(0, kmax) * mul + add;
		switch (op) {
		case 0: { int v = (int)nondet_u32(); vp_assume(r.n < MAXE - 1); m.set(k, v); r.set(k, v); break; }
		case 1: { vp_assume(r.n < MAXE - 1); int& x = m[k]; if (r.find(k) < 0) { vp_assert(x == 0, "operator[] auto-creates a default value"); r.set(k, 0); } else vp_assert(x == r.v[r.find(k)], "operator[] returns the stored value");
			int v = (int)nondet_u32(); x = v; r.set(k, v); break; }
		case 2: { m.remove(k); r.remove(k); break; }
		case 3: { vp_assert(m.has(k) == (r.find(k) >= 0), "has() agrees with the model");
			const M& cm = m; int d = cm.get(k, -77); vp_assert(d == (r.find(k) >= 0 ? r.v[r.find(k)] : -77), "get() with default"); break; }
		case 4: { m.clear(); r.n = 0; break; }
		case 6: { Merge<M>::run(m, r, k); break; }
		case 5: { M t(m); vp_assert(t.length() == r.n, "copy handle"); M u = m.clone(); vp_assert(u == m, "clone equals source"); break; }
		}
		check_map(m, r, ordered, "map equals the model after the operation");
		check_map(cl, cr, ordered, "clone unaffected by later changes");
	}
	vp_note(r.n);
}

extern "C" void h_map_hist(void)
{
	Map<int, int> m;
	if (vp_param(3) == 9) map_hist(m, true, 1000000000, -2000000000);    // keys spread over the whole int range (differences overflow)
	else map_hist(m, true, 1, 0);
	vp_reach(1);
}
extern "C" void h_hash_hist(void)
{
	int kind = vp_param(3);
	if (kind == 1) { HashMap<int, int> m(2); map_hist(m, false, 1, 0); }
	else if (kind == 2) { HashMap<int, int> m(4); map_hist(m, false, 1, 0); }
	else { HashMap<int, int> m; map_hist(m, false, 256, 5); }    // all keys in one bucket of the default table
	vp_reach(2);
}

// String keys sharing a long prefix (heap strings): p0 = number of keys, last byte symbolic
extern "C" void h_dic_prefix(void)
{
	int n = vp_param(0), len = vp_param(1);
	Dic<int> d; HashDic<int> h(4);
	char key[4][32]; int val[4];
	for (int i = 0; i < n; i++) {
		for (int j = 0; j < len - 1; j++) key[i][j] = 'k';
		key[i][len - 1] = (char)nondet_u8(); vp_assume(key[i][len - 1] > 0);
		key[i][len] = 0; val[i] = i + 1;
		d[String(key[i])] = val[i]; h[String(key[i])] = val[i];
	}
	// model: later assignment wins
	int distinct = 0;
	for (int i = 0; i < n; i++) {
		int last = i; bool first = true;
		for (int j = 0; j < n; j++) if (key[j][len - 1] == key[i][len - 1]) { if (j < i) first = false; last = j; }
		if (first) distinct++;
		vp_assert(d.has(key[i]) && d[key[i]] == val[last], "Dic lookup returns the latest value");
		vp_assert(h.has(String(key[i])) && h[String(key[i])] == val[last], "HashDic lookup returns the latest value");
	}
	vp_assert(d.length() == distinct && h.length() == distinct, "length is the number of distinct keys");
	String prev; int c = 0;
	foreach2(String& k, int& v, d) { if (c) vp_assert(prev < k, "Dic enumerates in ascending key order"); prev = k; c++; (void)v; }
	vp_assert(c == distinct, "Dic enumeration count");
	vp_reach(3);
}

// HashDic with colliding 2-byte keys over {A,B,a,b} ("Ab" and "BA" share a hash): p0 = inserts, p1 = removes
extern "C" void h_hashdic_collide(void)
{
	int n = vp_param(0), nrem = vp_param(1);
	static const char AL[4] = { 'A', 'B', 'a', 'b' };
	HashDic<int> h;
	char key[5][3]; int present[16]; int val[16];
	for (int i = 0; i < 16; i++) present[i] = 0;
	for (int i = 0; i < n + nrem; i++) {
		int a = vp_concretize(vp_range(0, 3)), b = vp_concretize(vp_range(0, 3));
		key[i][0] = AL[a]; key[i][1] = AL[b]; key[i][2] = 0;
		if (i < n) { h[String(key[i])] = i + 1; present[a * 4 + b] = 1; val[a * 4 + b] = i + 1; }
		else { h.remove(String(key[i])); present[a * 4 + b] = 0; }
	}
	int cnt = 0;
	for (int a = 0; a < 4; a++) for (int b = 0; b < 4; b++) {
		char k[3] = { AL[a], AL[b], 0 };
		vp_assert(h.has(String(k)) == (present[a * 4 + b] != 0), "HashDic membership after inserts/removes of colliding keys");
		if (present[a * 4 + b]) { cnt++; vp_assert(h[String(k)] == val[a * 4 + b], "HashDic value"); }
	}
	vp_assert(h.length() == cnt, "HashDic length");
	vp_reach(4);
}

// equality and set algebra depend only on contents: two sets/maps built from the same symbolic elements in two orders and
// two table sizes.  p0 = |A| inserts, p1 = |B| inserts, p2 = element range, p3 = table size for the second copy
extern "C" void h_set_algebra(void)
{
	int na = vp_param(0), nb = vp_param(1), kmax = vp_param(2), size2 = vp_param(3);
	int ea[4], eb[4];
	Set<int> A(4), A2(size2), B(4);
	HashMap<int, int> MA(4), MA2(size2);
	for (int i = 0; i < na; i++) ea[i] = vp_range(0, kmax);
	for (int i = 0; i < nb; i++) eb[i] = vp_range(0, kmax);
	for (int i = 0; i < na; i++) { A << ea[i]; MA[ea[i]] = 7; }
	for (int i = na - 1; i >= 0; i--) { A2 << ea[i]; MA2[ea[i]] = 7; }      // reverse insertion order
	for (int i = 0; i < nb; i++) B << eb[i];
	vp_assert(A == A2, "Set equality is independent of insertion order and table size");
	vp_assert(MA == MA2, "HashMap equality is independent of insertion order and table size");
	bool inA[16], inB[16];
	for (int x = 0; x <= kmax; x++) { inA[x] = false; inB[x] = false; for (int i = 0; i < na; i++) if (ea[i] == x) inA[x] = true; for (int i = 0; i < nb; i++) if (eb[i] == x) inB[x] = true; }
	Set<int> U = A + B, I = A & B, D = A - B;
	bool sub = true, any = false, same = true; int cu = 0, ci = 0, cd = 0;
	for (int x = 0; x <= kmax; x++) {
		vp_assert(A.contains(x) == inA[x], "contains");
		vp_assert(U.contains(x) == (inA[x] || inB[x]), "union");
		vp_assert(I.contains(x) == (inA[x] && inB[x]), "intersection");
		vp_assert(D.contains(x) == (inA[x] && !inB[x]), "difference");
		cu += inA[x] || inB[x]; ci += inA[x] && inB[x]; cd += inA[x] && !inB[x];
		if (inB[x] && !inA[x]) sub = false;
		if (inB[x] && inA[x]) any = true;
		if (inA[x] != inB[x]) same = false;
	}
	vp_assert(U.length() == cu && I.length() == ci && D.length() == cd, "sizes of union/intersection/difference");
	vp_assert(A.contains(B) == sub, "contains(set) is the subset test");
	vp_assert(A.containsAny(B) == any, "containsAny is the non-empty-intersection test");
	vp_assert((A == B) == same, "Set equality is equality of contents");
	Array<int> arr = A.array();
	vp_assert(arr.length() == A.length(), "array() has every member once");
	vp_reach(5);
}

// HashMap past its growth threshold with keys whose hash has bits above bit 16: every key stays findable, removable, counted once
extern "C" void h_hash_grow(void)
{
	int n = vp_param(0);
	HashMap<int, int> m;
	for (int i = 0; i < n; i++) m[i * 65537 + 3] = i + 1;
	vp_assert(m.length() == n, "length() counts every inserted key once, also after the table has grown");
	int j = vp_concretize(vp_range(0, (n - 1) / 16)) * 16 + vp_concretize(vp_range(0, 15));      // every key (two-level case split)
	vp_assume(j < n);
	int key = j * 65537 + 3;
	vp_assert(m.has(key), "a key inserted before or during growth is found");
	const HashMap<int, int>& cm = m;
	vp_assert(cm.get(key, -1) == j + 1, "its value is the one stored");
	m[key] = -5;
	vp_assert(m.length() == n, "writing an existing key creates no duplicate");
	m.remove(key);
	vp_assert(m.length() == n - 1 && !m.has(key), "remove() removes exactly that key");
	int cnt = 0; foreach2(int k, int v, m) { (void)v; vp_assert(k != key, "a removed key is not enumerated"); cnt++; }
	vp_assert(cnt == n - 1, "enumeration visits every remaining key once");
	vp_note(cnt);
	vp_reach(6);
}

// Map converting constructor: the converted keys are again in ascending order, findable, without duplicates
extern "C" void h_map_convert(void)
{
	Map<int, int> m;
	int k[3];
	for (int i = 0; i < 3; i++) { k[i] = vp_range(-3, 3); m[k[i]] = 10 + i; }
	Map<unsigned, int> u(m);
	vp_assert(u.length() == m.length(), "converting an int-keyed map to unsigned keys keeps the number of keys (distinct ints stay distinct)");
	unsigned prev = 0; bool first = true;
	foreach2(unsigned key, int v, u) { (void)v; vp_assert(first || key > prev, "enumeration of the converted map is in ascending key order"); prev = key; first = false; }
	for (int i = 0; i < 3; i++) vp_assert(u.has((unsigned)k[i]) && u[(unsigned)k[i]] == m[k[i]], "every converted key is found with its value");
	vp_note(u.length());
	vp_reach(7);
}
