// C03 harnesses: String against a byte-string model
#include <asl/String.h>
#include <asl/Array.h>
#include <asl/Map.h>
#include "vp.h"
using namespace asl;

#define CAP 1100
// builds text of total length n whose last nsym bytes are symbolic and NUL-free, the rest a repeating filler
static void mk(char* t, int n, int nsym, const char* filler = "ab")
{
	int fl = (int)strlen(filler);
	for (int i = 0; i < n; i++) {
		if (i >= n - nsym) { t[i] = (char)nondet_u8(); vp_assume(t[i] != 0); } else t[i] = filler[i % fl];
	}
	t[n] = 0;
}
static void inv(const String& s, const char* msg) { vp_assert((int)strlen(*s) == s.length(), msg); }
static void eqs(const String& s, const char* ref, int n, const char* msg)
{
	vp_assert(s.length() == n, msg);
	const char* p = *s;
	for (int i = 0; i < n && i < s.length(); i++) vp_assert(p[i] == ref[i], msg);
	vp_assert(p[s.length()] == 0, msg);
}

// p0 = length, p1 = symbolic tail bytes: construction, substring/substr, search, prefix/suffix tests, comparison, trimmed
extern "C" void h_query(void)
{
	int n = vp_param(0), nsym = vp_param(1);
	static char t[CAP];
	mk(t, n, nsym);
	String s(t);
	eqs(s, t, n, "String(const char*) holds the bytes");
	String c(s); eqs(c, t, n, "copy constructor");
	String s2(t, n); eqs(s2, t, n, "String(const char*, n)");
	// cut points: both ends, one inside each end, the middle
	int i = vp_range(0, n), j = vp_range(i, n);
	vp_assume(i <= 1 || i == n / 2 || i >= n - 1); vp_assume(j <= 1 || j == n / 2 || j == i + 1 || j >= n - 1);
	i = vp_concretize(i); j = vp_concretize(j);
	String sub = s.substring(i, j);
	eqs(sub, t + i, j - i, "substring(i,j) is bytes [i,j)");
	String rest = s.substring(i);
	eqs(rest, t + i, n - i, "substring(i) is the tail");
	String sb = s.substr(i, j - i);
	eqs(sb, t + i, j - i, "substr(i,n)");
	if (n > 0) {
		char ch = (char)nondet_u8(); vp_assume(ch != 0);
		int i0 = vp_range(0, n); vp_assume(i0 <= 1 || i0 == n / 2 || i0 >= n - 1); i0 = vp_concretize(i0);
		int r = -1; for (int q = n - 1; q >= 0; q--) if (q >= i0 && t[q] == ch) r = q;
		vp_assert(s.indexOf(ch, i0) == r, "indexOf(char, i0) is the first occurrence at or after i0");
		int rl = -1; for (int q = 0; q < n; q++) if (t[q] == ch) rl = q;
		vp_assert(s.lastIndexOf(ch) == rl, "lastIndexOf(char)");
		vp_assert(s.contains(ch) == (rl >= 0), "contains(char)");
		vp_assert(s.endsWith(ch) == (t[n - 1] == ch), "endsWith(char)");
	}
	vp_assert(s.startsWith(sub) == (memcmp(t, t + i, j - i) == 0), "startsWith(String)");
	vp_assert(s.endsWith(rest), "endsWith(own tail)");
	vp_assert(s == c && !(s != c) && s.compare(c) == 0 && !(s < c), "equal strings compare equal");
	if (j - i < n) vp_assert(!(s == sub), "strings of different length are unequal");
	inv(s, "length() == strlen"); inv(sub, "length() == strlen (substring)");
	vp_note(sub.length());
	vp_reach(1);
}

// p0 = length, p1 = symbolic tail, p2 = pattern length (1..2, symbolic): indexOf(pattern), split by the pattern then join with it is the identity, replace
extern "C" void h_split(void)
{
	int n = vp_param(0), nsym = vp_param(1), m = vp_param(2);
	static char t[CAP]; char pat[4];
	mk(t, n, nsym, "a,b;");
	for (int q = 0; q < m; q++) { pat[q] = (char)nondet_u8(); vp_assume(pat[q] != 0); }
	pat[m] = 0;
	String s(t), sep(pat);
	// reference search
	int first = -1;
	for (int q = 0; q + m <= n && first < 0; q++) if (memcmp(t + q, pat, m) == 0) first = q;
	vp_assert(s.indexOf(sep) == first, "indexOf(String) is the first occurrence");
	vp_assert(s.contains(sep) == (first >= 0), "contains(String)");
	Array<String> parts = s.split(sep);
	// reference split count: number of non-overlapping occurrences scanning left to right, plus one
	int cnt = 1; for (int q = 0; q + m <= n;) { if (memcmp(t + q, pat, m) == 0) { cnt++; q += m; } else q++; }
	vp_assert(parts.length() == cnt, "split yields occurrences+1 parts");
	String back = parts.join(sep);
	eqs(back, t, n, "split by a non-empty separator then join with it is the identity");
	String rep = s.replace(sep, sep);
	eqs(rep, t, n, "replace(a,a) is the identity");
	String del = s.replace(sep, "");
	vp_assert(del.length() == n - (cnt - 1) * m, "replace(a,\"\") removes every occurrence");
	inv(del, "length() == strlen (replace)");
	vp_note(cnt);
	vp_reach(2);
}

// p0 = initial length, p1 = number of in-place ops: mutation histories incl. self-append / self-assignment of pieces, against a byte model
extern "C" void h_mut(void)
{
	int n0 = vp_param(0), nops = vp_param(1), mask = vp_param(2);
	static char r[CAP]; int rn = n0;
	for (int i = 0; i < n0; i++) r[i] = "0123456789"[i % 10];
	r[n0] = 0;
	String s(r);
	for (int st = 0; st < nops; st++) {
		int op = vp_concretize(vp_range(0, 9));
		vp_assume((mask >> op) & 1);
		switch (op) {
		case 0: { char c = (char)nondet_u8(); vp_assume(c != 0); s += c; r[rn++] = c; r[rn] = 0; break; }
		case 1: { int k = vp_concretize(vp_range(0, 9)); char add[12]; for (int i = 0; i < k; i++) add[i] = 'x'; add[k] = 0; s += add; memcpy(r + rn, add, k + 1); rn += k; break; }
		case 2: { vp_assume(2 * rn < CAP - 1); s += s; memcpy(r + rn, r, rn); rn *= 2; r[rn] = 0; break; }                      // append itself
		case 3: { int k = vp_concretize(vp_range(0, rn)); vp_assume(2 * rn < CAP - 1); s += (*s + k); memmove(r + rn, r + k, rn - k); rn += rn - k; r[rn] = 0; break; }  // append own tail
		case 4: { int k = vp_concretize(vp_range(0, rn)); s = (*s + k); memmove(r, r + k, rn - k); rn -= k; r[rn] = 0; break; }   // assign own tail
		case 5: { s = s; break; }
		case 6: { int m = vp_concretize(vp_range(0, rn)); s.resize(m); rn = m; r[rn] = 0; break; }                               // shrink
		case 7: { String o = s; s = o; break; }
		case 8: { s = String("  ") + s + " \t"; s.trim(); int a = 0; while (a < rn && (r[a] == ' ' || r[a] == '\t' || r[a] == '\n' || r[a] == '\r')) a++;
			int b = rn; while (b > a && (r[b - 1] == ' ' || r[b - 1] == '\t' || r[b - 1] == '\n' || r[b - 1] == '\r')) b--; memmove(r, r + a, b - a); rn = b - a; r[rn] = 0; break; }
		case 9: { s.clear(); rn = 0; r[0] = 0; break; }
		}
		eqs(s, r, rn, "string equals the byte model after the in-place operation");
		inv(s, "length() == strlen after mutation");
	}
	vp_note(rn);
	vp_reach(3);
}

// numbers: String(int/unsigned/Long/ULong) and back; p0 = kind, p1 = number of decimal digits (magnitude class), p2 = negative
extern "C" void h_num(void)
{
	int kind = vp_param(0), digits = vp_param(1), neg = vp_param(2);
	unsigned long long lo = 1, hi;
	for (int i = 1; i < digits; i++) lo *= 10;
	hi = digits >= 20 ? ~0ULL : lo * 10 - 1;
	if (digits == 0) { lo = 0; hi = 0; }
	int mode = vp_param(3);     // 0: the whole digit class; 1: within 20 of the lower end 10^(d-1) and of the upper end; 2: within 20 of 2^31 / 2^63 / 2^32 / 2^64
	unsigned long long mag = nondet_u64();
	vp_assume(mag >= lo && mag <= hi);
	if (mode == 1) vp_assume(mag - lo <= 20 || hi - mag <= 20);
	if (mode == 2) { unsigned long long edge = (kind == 0) ? 2147483648ULL : (kind == 1) ? 4294967295ULL : (kind == 2) ? 9223372036854775808ULL : ~0ULL; vp_assume(edge - mag <= 20 || mag - edge <= 20); }
	if (kind == 0) { vp_assume(mag <= (neg ? 2147483648ULL : 2147483647ULL)); int x = neg ? (int)(0u - (unsigned)mag) : (int)mag;
		String s(x); inv(s, "String(int) consistent"); vp_assert(s.length() == digits + (x < 0) + (digits == 0), "String(int) has one char per digit");
		vp_assert(myatoi(*s) == x, "int -> String -> int is the identity"); vp_assert((int)s == x, "operator int"); }
	else if (kind == 1) { vp_assume(mag <= 4294967295ULL); unsigned x = (unsigned)mag;
		String s(x); inv(s, "String(unsigned) consistent"); vp_assert((unsigned)myatol(*s) == x, "unsigned -> String -> unsigned is the identity"); }
	else if (kind == 2) { vp_assume(mag <= (neg ? 9223372036854775808ULL : 9223372036854775807ULL)); Long x = neg ? (Long)(0ULL - mag) : (Long)mag;
		String s(x); inv(s, "String(Long) consistent"); vp_assert(s.length() == digits + (x < 0) + (digits == 0), "String(Long) has one char per digit");
		vp_assert(myatol(*s) == x, "Long -> String -> Long is the identity"); }
	else { ULong x = mag; String s(x); inv(s, "String(ULong) consistent"); vp_assert(s.length() == digits + (digits == 0), "String(ULong) length");
		ULong y = 0; for (int i = 0; i < s.length(); i++) y = y * 10 + (ULong)((*s)[i] - '0'); vp_assert(y == x, "ULong -> String -> digits is the identity"); }
	vp_reach(4);
}

// printf-style construction: p0 = length of the %s argument (filler + 1 symbolic byte), p1 = which ctor (0 String::f, 1 String(n, fmt, ...))
extern "C" void h_fmt(void)
{
	int n = vp_param(0), which = vp_param(1), nhint = vp_param(2);
	static char a[CAP]; mk(a, n, n > 0 ? 1 : 0, "q");
	int v = (int)nondet_u32(); vp_assume(v >= -9 && v <= 9);
	String s = which == 0 ? String::f("<%s|%i>", a, v) : String(nhint, "<%s|%i>", a, v);
	int exp = n + 4 + (v < 0);
	vp_assert(s.length() == exp, "formatted length");
	inv(s, "length() == strlen (formatted)");
	const char* p = *s;
	vp_assert(p[0] == '<' && p[exp - 1] == '>' && p[n + 1] == '|', "formatted frame");
	for (int i = 0; i < n; i++) vp_assert(p[1 + i] == a[i], "formatted %s bytes");
	vp_assert(p[exp - 2] == '0' + (v < 0 ? -v : v), "formatted %i digit");
	vp_reach(5);
}
