SOURCES = ['String.cpp']
HARNESS = 'h_c03.cpp'
ENV = ['vlibc.c']
ALLOPS = 1023


def instances(tier):
    q = tier == 'quick'
    out = []
    for n, k in ([(0, 0), (1, 1), (2, 2), (3, 3), (14, 2), (15, 2), (16, 2), (17, 2), (19, 1), (20, 1), (23, 2), (24, 2), (47, 1), (48, 1), (1022, 1), (1023, 1), (1024, 1), (1025, 1)] if q else
                 [(0, 0), (1, 1), (2, 2), (3, 3), (4, 3), (14, 2), (15, 3), (16, 3), (17, 2), (19, 2), (20, 2), (23, 2), (24, 2), (47, 2), (48, 2), (1022, 2), (1023, 2), (1024, 2), (1025, 2)]):
        out.append({'entry': 'h_query', 'params': [n, k], 'bound': 'strings of length %d: filler + every NUL-free %d-byte tail; cut points at both ends and the middle; any search character' % (n, k)})
    for n, k, m in ([(3, 3, 1), (6, 2, 1), (6, 2, 2), (16, 2, 1), (17, 1, 2), (24, 2, 1), (1024, 1, 1)] if q else
                    [(3, 3, 1), (4, 3, 2), (6, 3, 1), (6, 2, 2), (15, 2, 2), (16, 2, 1), (17, 2, 2), (24, 2, 1), (48, 2, 2), (1024, 1, 1), (1025, 1, 2)]):
        out.append({'entry': 'h_split', 'params': [n, k, m], 'bound': 'length %d ("a,b;" filler + %d symbolic bytes), every separator/pattern of %d NUL-free byte(s)' % (n, k, m)})
    for n0, ops in ([(0, 2), (7, 2), (14, 2), (15, 2), (16, 1), (22, 2), (23, 1), (24, 1), (500, 1), (1020, 1)] if q else
                    [(0, 3), (7, 2), (14, 2), (15, 3), (16, 2), (22, 2), (23, 2), (24, 2), (500, 1), (511, 1), (1020, 1), (1023, 1)]):
        out.append({'entry': 'h_mut', 'params': [n0, ops, ALLOPS], 'bound': 'every history of %d in-place ops (10 kinds incl. s+=s, s+=*s+k, s=*s+k, s=s) from a %d-byte string' % (ops, n0)})
    for kind, dmax, name in ((0, 10, 'int'), (1, 10, 'unsigned'), (2, 19, 'Long'), (3, 20, 'ULong')):
        for d in range(0, dmax + 1):
            for neg in ((0, 1) if kind in (0, 2) else (0,)):
                if d == 0 and neg: continue
                full = d <= (4 if q else 5)
                out.append({'entry': 'h_num', 'params': [kind, d, neg, 0 if full else 1],
                            'bound': '%s%s with %d decimal digits: %s' % ('negative ' if neg else '', name, d, 'every value' if full else 'every value within 20 of 10^%d and of 10^%d-1' % (d - 1, d))})
        for neg in ((0, 1) if kind in (0, 2) else (0,)):
            out.append({'entry': 'h_num', 'params': [kind, dmax, neg, 2], 'bound': '%s: every value within 20 of the type limit' % name})
    for n in ([0, 3, 14, 15, 16, 99, 100, 101, 249, 250, 251, 252, 600] if q else [0, 1, 3, 10, 11, 12, 14, 15, 16, 19, 20, 94, 95, 96, 99, 100, 101, 249, 250, 251, 252, 253, 254, 255, 256, 600, 1100]):
        for which, hint in ((0, 0), (1, 0), (1, 5)):
            if n > CAPLIM: continue
            out.append({'entry': 'h_fmt', 'params': [n, which, hint], 'bound': '"<%%s|%%i>" with a %d-byte string argument (%s)' % (n, 'String::f' if which == 0 else 'String(%d, fmt, ...)' % hint)})
    return out


CAPLIM = 1090
BUDGET_S = {'quick': 3600, 'thorough': 10800}
BOUNDS = {'quick': 'lengths {0,1,2,3,14..17,19,20,23,24,47,48,1022..1025} with 1-3 fully symbolic tail bytes; separators of 1-2 symbolic bytes; mutation histories of 1-2 ops from 10 start lengths; integers: every value with <= 4 digits and every value within 20 of each power of ten and of each type limit (32/64 bit, signed/unsigned); printf-style construction around the 16/100/256-byte buffer boundaries',
          'thorough': 'as quick with 2 (lengths 3, 4, 15, 16: 3) symbolic tail bytes, 2 (from 0 and 15 bytes: 3; from 500+ bytes: 1) op histories, every integer with <= 5 digits'}
OUTSIDE = ['integers with 6+ digits away from powers of ten (the multiply/divide-by-10 round trip over a full digit class does not finish in z3 within 60 s from 7 digits on)',
           'float/double text (libc %g / atof)', 'formatted content beyond %s and %i (libc printf is replaced by the mini printf of env/vlibc.c)', 'strings longer than 1100 bytes', 'wide-character paths']
ASSUMPTIONS = ['vsnprintf/snprintf are the mini implementation in env/vlibc.c (C-locale, %s %i %d %u %x %llu ...), executed symbolically']
