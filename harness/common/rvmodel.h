// Reference value model (JSON-like) + an independent strict RFC 8259 parser, shared by the C05/C06 harnesses.
#ifndef RVMODEL_H
#define RVMODEL_H
#include <asl/Var.h>
#include <string.h>
enum { T_NONE, T_NUL, T_INT, T_BOOL, T_NUM, T_STR, T_ARR, T_OBJ };
#define RV_SLEN 24
#define RC_MAX 6
struct RV { int tag; int i; double d; char s[RV_SLEN]; int c; };
struct RC { int n; RV el[RC_MAX]; char key[RC_MAX][8]; };
static RC pool[40]; static int npool;

static int newc() { pool[npool].n = 0; return npool++; }
static RV rnone() { RV r; r.tag = T_NONE; r.i = 0; r.d = 0; r.s[0] = 0; r.c = -1; return r; }
static RV rint(int x) { RV r = rnone(); r.tag = T_INT; r.i = x; return r; }
static RV rstr(const char* s) { RV r = rnone(); r.tag = T_STR; strcpy(r.s, s); return r; }
static bool req(const RV& a, const RV& b)
{
	bool na = a.tag == T_INT || a.tag == T_NUM, nb = b.tag == T_INT || b.tag == T_NUM;
	if (na || nb) { if (!(na && nb)) return false; double x = a.tag == T_INT ? a.i : a.d, y = b.tag == T_INT ? b.i : b.d; return x == y; }
	if (a.tag != b.tag) return false;
	switch (a.tag) {
	case T_NUL: return true;
	case T_BOOL: return a.i == b.i;
	case T_STR: return strcmp(a.s, b.s) == 0;
	case T_ARR: { const RC& x = pool[a.c]; const RC& y = pool[b.c]; if (x.n != y.n) return false; for (int i = 0; i < x.n; i++) if (!req(x.el[i], y.el[i])) return false; return true; }
	case T_OBJ: { const RC& x = pool[a.c]; const RC& y = pool[b.c]; if (x.n != y.n) return false;
		for (int i = 0; i < x.n; i++) { int j = -1; for (int q = 0; q < y.n; q++) if (!strcmp(x.key[i], y.key[q])) j = q; if (j < 0 || !req(x.el[i], y.el[j])) return false; } return true; }
	}
	return false;
}
// does the asl Var hold exactly the model value?
static bool vmatch(const asl::Var& v, const RV& r, int depth = 0)
{
	using asl::Var;
	switch (r.tag) {
	case T_NONE: return !v.ok();
	case T_NUL: return v.type() == Var::NUL;
	case T_INT: return v.is(Var::NUMBER) && (double)v == (double)r.i;
	case T_BOOL: return v.type() == Var::BOOL && (bool)v == (r.i != 0);
	case T_NUM: return v.is(Var::NUMBER) && (double)v == r.d;
	case T_STR: return v.type() == Var::STRING && strcmp(*v, r.s) == 0;
	case T_ARR: { const RC& c = pool[r.c]; if (v.type() != Var::ARRAY || v.length() != c.n) return false;
		for (int i = 0; i < c.n; i++) if (!vmatch(v[i], c.el[i], depth + 1)) return false; return true; }
	case T_OBJ: { const RC& c = pool[r.c]; if (v.type() != Var::OBJ || v.length() != c.n) return false;
		for (int i = 0; i < c.n; i++) { if (!v.has(c.key[i])) return false; if (!vmatch(v[c.key[i]], c.el[i], depth + 1)) return false; } return true; }
	}
	return false;
}

// ---- independent strict JSON parser (RFC 8259): returns false on any deviation.  Numbers: integers that fit 9 digits
// become T_INT, everything else goes through the supplied text->double function (libc strtod natively).
struct JP { const char* p; int depth; bool ok; };
static void jws(JP& j) { while (*j.p == ' ' || *j.p == '\t' || *j.p == '\n' || *j.p == '\r') j.p++; }
static int jhex(char c) { if (c >= '0' && c <= '9') return c - '0'; if (c >= 'a' && c <= 'f') return c - 'a' + 10; if (c >= 'A' && c <= 'F') return c - 'A' + 10; return -1; }
static bool jstring(JP& j, char* out, int cap)
{
	if (*j.p != '"') return false;
	j.p++; int n = 0;
	while (true) {
		unsigned char c = (unsigned char)*j.p;
		if (c == 0 || c < 0x20) return false;          // unescaped control characters are not JSON
		j.p++;
		if (c == '"') break;
		unsigned cp = c;
		if (c == '\\') {
			char e = *j.p++;
			switch (e) {
			case '"': cp = '"'; break; case '\\': cp = '\\'; break; case '/': cp = '/'; break; case 'b': cp = 8; break; case 'f': cp = 12; break;
			case 'n': cp = 10; break; case 'r': cp = 13; break; case 't': cp = 9; break;
			case 'u': { cp = 0; for (int q = 0; q < 4; q++) { int h = jhex(*j.p); if (h < 0) return false; cp = cp * 16 + h; j.p++; }
				if (cp >= 0xD800 && cp < 0xDC00) { if (j.p[0] != '\\' || j.p[1] != 'u') return false; j.p += 2; unsigned lo = 0;
					for (int q = 0; q < 4; q++) { int h = jhex(*j.p); if (h < 0) return false; lo = lo * 16 + h; j.p++; }
					if (lo < 0xDC00 || lo > 0xDFFF) return false; cp = 0x10000 + ((cp - 0xD800) << 10) + (lo - 0xDC00); }
				else if (cp >= 0xDC00 && cp <= 0xDFFF) return false;
				if (cp == 0) return false;
				if (cp >= 0x80) {      // emit UTF-8
					if (n + 4 >= cap) return false;
					if (cp < 0x800) { out[n++] = (char)(0xC0 | (cp >> 6)); out[n++] = (char)(0x80 | (cp & 63)); }
					else if (cp < 0x10000) { out[n++] = (char)(0xE0 | (cp >> 12)); out[n++] = (char)(0x80 | ((cp >> 6) & 63)); out[n++] = (char)(0x80 | (cp & 63)); }
					else { out[n++] = (char)(0xF0 | (cp >> 18)); out[n++] = (char)(0x80 | ((cp >> 12) & 63)); out[n++] = (char)(0x80 | ((cp >> 6) & 63)); out[n++] = (char)(0x80 | (cp & 63)); }
					continue; }
				break; }
			default: return false;
			}
		}
		if (n + 1 >= cap) return false;
		out[n++] = (char)cp;
	}
	out[n] = 0;
	return true;
}
static bool jvalue(JP& j, RV& out, double (*todouble)(const char*));
static bool jnumber(JP& j, RV& out, double (*todouble)(const char*))
{
	const char* s = j.p; char buf[48]; int n = 0;
	bool isint = true;
	if (*j.p == '-') j.p++;
	if (*j.p == '0') j.p++;
	else if (*j.p >= '1' && *j.p <= '9') { while (*j.p >= '0' && *j.p <= '9') j.p++; }
	else return false;
	if (*j.p == '.') { isint = false; j.p++; if (!(*j.p >= '0' && *j.p <= '9')) return false; while (*j.p >= '0' && *j.p <= '9') j.p++; }
	if (*j.p == 'e' || *j.p == 'E') { isint = false; j.p++; if (*j.p == '+' || *j.p == '-') j.p++; if (!(*j.p >= '0' && *j.p <= '9')) return false; while (*j.p >= '0' && *j.p <= '9') j.p++; }
	n = (int)(j.p - s); if (n >= 47) return false;
	memcpy(buf, s, n); buf[n] = 0;
	out = rnone();
	int digits = n - (buf[0] == '-');
	if (isint && digits <= 9) { int v = 0; for (int q = (buf[0] == '-'); q < n; q++) v = v * 10 + (buf[q] - '0'); out.tag = T_INT; out.i = buf[0] == '-' ? -v : v; }
	else { out.tag = T_NUM; out.d = todouble(buf); }
	return true;
}
static bool jvalue(JP& j, RV& out, double (*todouble)(const char*))
{
	jws(j);
	if (++j.depth > 16) return false;
	bool ok = false;
	out = rnone();
	char c = *j.p;
	if (c == '"') { out.tag = T_STR; ok = jstring(j, out.s, RV_SLEN); }
	else if (c == '-' || (c >= '0' && c <= '9')) ok = jnumber(j, out, todouble);
	else if (!strncmp(j.p, "true", 4)) { j.p += 4; out.tag = T_BOOL; out.i = 1; ok = true; }
	else if (!strncmp(j.p, "false", 5)) { j.p += 5; out.tag = T_BOOL; out.i = 0; ok = true; }
	else if (!strncmp(j.p, "null", 4)) { j.p += 4; out.tag = T_NUL; ok = true; }
	else if (c == '[') {
		j.p++; out.tag = T_ARR; out.c = newc(); jws(j);
		if (*j.p == ']') { j.p++; ok = true; }
		else while (true) { RV e; if (!jvalue(j, e, todouble)) break; RC& cc = pool[out.c]; if (cc.n >= RC_MAX) break; cc.el[cc.n++] = e; jws(j);
			if (*j.p == ',') { j.p++; continue; } if (*j.p == ']') { j.p++; ok = true; } break; }
	}
	else if (c == '{') {
		j.p++; out.tag = T_OBJ; out.c = newc(); jws(j);
		if (*j.p == '}') { j.p++; ok = true; }
		else while (true) { jws(j); char k[8]; if (!jstring(j, k, 8)) break; jws(j); if (*j.p != ':') break; j.p++; RV e; if (!jvalue(j, e, todouble)) break;
			RC& cc = pool[out.c]; int at = -1; for (int q = 0; q < cc.n; q++) if (!strcmp(cc.key[q], k)) at = q;
			if (at < 0) { if (cc.n >= RC_MAX) break; at = cc.n++; strcpy(cc.key[at], k); } cc.el[at] = e; jws(j);
			if (*j.p == ',') { j.p++; continue; } if (*j.p == '}') { j.p++; ok = true; } break; }
	}
	j.depth--;
	return ok;
}
// whole document: value surrounded by whitespace only
static bool jparse(const char* text, RV& out, double (*todouble)(const char*))
{
	JP j; j.p = text; j.depth = 0; j.ok = true;
	if (!jvalue(j, out, todouble)) return false;
	jws(j);
	return *j.p == 0;
}
#endif
