// C16 harnesses: endian-aware binary streams (StreamBuffer / StreamBufferReader)
#include <asl/StreamBuffer.h>
#include "vp.h"
using namespace asl;
typedef unsigned long long u64;

static Endian endian_of(int e) { return e == 0 ? ENDIAN_BIG : e == 1 ? ENDIAN_LITTLE : ENDIAN_NATIVE; }
static bool is_big(int e) { return e == 0; }      // NATIVE on this target is little endian

// reference serializer: n bytes of pattern v in the given order
static int ref_put(byte* o, u64 v, int n, bool big) { for (int i = 0; i < n; i++) o[i] = (byte)(v >> (8 * (big ? n - 1 - i : i))); return n; }

template<class T> static u64 bits(T x) { u64 v = 0; memcpy(&v, &x, sizeof(T)); return v; }
template<class T> static T frombits(u64 v) { T x; memcpy(&x, &v, sizeof(T)); return x; }

// kinds: 0 byte,1 char,2 short,3 ushort,4 int,5 unsigned,6 Long,7 ULong,8 float,9 double,10 bool
static const int SIZES[11] = { 1, 1, 2, 2, 4, 4, 8, 8, 4, 8, 1 };

static void put_kind(StreamBuffer& b, int kind, u64 v)
{
	switch (kind) {
	case 0: b << (byte)v; break; case 1: b << (char)v; break; case 2: b << (short)v; break; case 3: b << (unsigned short)v; break;
	case 4: b << (int)v; break; case 5: b << (unsigned)v; break; case 6: b << (Long)v; break; case 7: b << (ULong)v; break;
	case 8: b << frombits<float>(v); break; case 9: b << frombits<double>(v); break; case 10: b << (bool)(v & 1); break;
	}
}
static u64 get_kind(StreamBufferReader& r, int kind)
{
	switch (kind) {
	case 0: return r.read<byte>(); case 1: return (byte)r.read<char>(); case 2: return (unsigned short)r.read<short>(); case 3: return r.read<unsigned short>();
	case 4: return (unsigned)r.read<int>(); case 5: return r.read<unsigned>(); case 6: return (u64)r.read<Long>(); case 7: return r.read<ULong>();
	case 8: return bits(r.read<float>()); case 9: return bits(r.read<double>()); case 10: return r.read<bool>() ? 1 : 0;
	}
	return 0;
}

// p0 = number of values: every sequence of typed values with arbitrary bit patterns, byte order switched at a symbolic
// point: the buffer is exactly the concatenation of each value's sizeof(T) bytes in the order in force; reading back returns them
extern "C" void h_seq(void)
{
	int n = vp_param(0);
	int e1 = vp_concretize(vp_range(0, 2)), e2 = vp_concretize(vp_range(0, 2)), sw = vp_concretize(vp_range(0, n));
	int kind[8]; u64 val[8];
	StreamBuffer b(endian_of(e1));
	byte ref[80]; int rl = 0;
	for (int i = 0; i < n; i++) {
		kind[i] = vp_concretize(vp_range(0, 10));
		u64 v = nondet_u64();
		int sz = SIZES[kind[i]];
		if (sz < 8) v &= (1ULL << (8 * sz)) - 1;
		if (kind[i] == 10) v &= 1;
		val[i] = v;
		if (i == sw) b.setEndian(endian_of(e2));
		put_kind(b, kind[i], v);
		rl += ref_put(ref + rl, v, sz, is_big(i >= sw ? e2 : e1));
	}
	vp_assert(b.length() == rl, "buffer length is the sum of sizeof(T)");
	for (int i = 0; i < rl && i < b.length(); i++) vp_assert(b[i] == ref[i], "buffer bytes are the canonical encoding");
	StreamBufferReader r(*b, endian_of(e1));
	for (int i = 0; i < n; i++) {
		if (i == sw) r.setEndian(endian_of(e2));
		u64 g = get_kind(r, kind[i]);
		vp_assert(g == val[i], "value read back equals value written (bit pattern)");
	}
	vp_assert(r.length() == 0, "reader consumed exactly the bytes written");
	vp_note(rl);
	vp_reach(1);
}

// p0 = element kind (2 short, 4 int, 6 Long, 8 float, 9 double, 0 byte), p1 = array length: arrays are written as
// length*sizeof(T) bytes, element by element in the byte order in force, followed/preceded by scalars
template<class T>
static void arr(int kind)
{
	int len = vp_param(1);
	int e = vp_concretize(vp_range(0, 2));
	Array<T> a(len);
	byte ref[64]; int rl = 0;
	StreamBuffer b(endian_of(e));
	b << (byte)0xEE; ref[rl++] = 0xEE;
	for (int i = 0; i < len; i++) { u64 v = nondet_u64(); if (sizeof(T) < 8) v &= (1ULL << (8 * sizeof(T))) - 1; a[i] = frombits<T>(v); rl += ref_put(ref + rl, v, sizeof(T), is_big(e)); }
	b << a;
	b << (unsigned short)0xA1B2; rl += ref_put(ref + rl, 0xA1B2, 2, is_big(e));
	vp_assert(b.length() == rl, "array written as length*sizeof(T) bytes");
	for (int i = 0; i < rl && i < b.length(); i++) vp_assert(b[i] == ref[i], "array bytes canonical");
	vp_note(b.length());
	(void)kind;
}
extern "C" void h_array(void)
{
	int k = vp_param(0);
	if (k == 0) arr<byte>(k); else if (k == 2) arr<short>(k); else if (k == 4) arr<int>(k); else if (k == 6) arr<Long>(k);
	else if (k == 8) arr<float>(k); else arr<double>(k);
	vp_reach(2);
}

// strings: bytes of the text, no terminator, unaffected by byte order
extern "C" void h_string(void)
{
	int n = vp_param(0), e = vp_concretize(vp_range(0, 2));
	char t[8];
	for (int i = 0; i < n; i++) { t[i] = (char)nondet_u8(); vp_assume(t[i] != 0); }
	t[n] = 0;
	StreamBuffer b(endian_of(e));
	b << String(t) << (const char*)t;
	vp_assert(b.length() == 2 * n, "string written as its bytes");
	for (int i = 0; i < 2 * n && i < b.length(); i++) vp_assert(b[i] == (byte)t[i % n], "string bytes");
	// a String holding arbitrary bytes (an embedded NUL included) contributes exactly length() bytes
	{
		byte raw[4] = { nondet_u8(), nondet_u8(), nondet_u8(), 0x7e };
		String z((const char*)raw, 4) ;
		StreamBuffer c(endian_of(e));
		c << (byte)1 << z << (byte)2;
		vp_assert(z.length() == 4 && c.length() == 6, "a String contributes exactly its length in bytes");
		for (int i = 0; i < 4 && c.length() == 6; i++) vp_assert(c[1 + i] == raw[i], "String bytes, embedded NUL included");
		if (c.length() == 6) vp_assert(c[5] == 2, "what follows the string is in place");
	}
	vp_reach(3);
}
