// C16 harness (3): the Socket stream operators, over the socket model with fragmented delivery
#include <asl/Socket.h>
#include "vp.h"
#include "vsock.h"
using namespace asl;
typedef unsigned long long u64;
static Endian endian_of(int e) { return e == 0 ? ENDIAN_BIG : e == 1 ? ENDIAN_LITTLE : ENDIAN_NATIVE; }
static int ref_put(byte* o, u64 v, int n, bool big) { for (int i = 0; i < n; i++) o[i] = (byte)(v >> (8 * (big ? n - 1 - i : i))); return n; }
template<class T> static T frombits(u64 v) { T x; memcpy(&x, &v, sizeof(T)); return x; }
template<class T> static u64 bits(T x) { u64 v = 0; memcpy(&v, &x, sizeof(T)); return v; }
static const int SIZES[6] = { 1, 2, 4, 8, 4, 8 };   // byte, short, int, Long, float, double

// p0 = number of values, p1 = fragmented delivery: values written by a reference serializer arrive in arbitrary fragments and are
// read back with Socket >>; the same values written with Socket << produce the canonical bytes
extern "C" void h_sock_seq(void)
{
	int n = vp_param(0), frag = vp_param(1);
	int e = vp_concretize(vp_range(0, 2));
	int kind[4]; u64 val[4]; byte ref[40]; int rl = 0;
	for (int i = 0; i < n; i++) {
		kind[i] = vp_concretize(vp_range(0, 5)); u64 v = nondet_u64(); int sz = SIZES[kind[i]]; if (sz < 8) v &= (1ULL << (8 * sz)) - 1; val[i] = v;
		rl += ref_put(ref + rl, v, sz, e == 0);
	}
	int fd = vp_sock_new();
	vp_sock_feed(fd, ref, rl);
	vp_sock_fragment(fd, frag);
	{
		Socket s(fd); s.setEndian(endian_of(e));
		for (int i = 0; i < n; i++) {
			u64 got = 0;
			switch (kind[i]) { case 0: { byte x; s >> x; got = x; break; } case 1: { short x; s >> x; got = (unsigned short)x; break; } case 2: { int x; s >> x; got = (unsigned)x; break; }
				case 3: { Long x; s >> x; got = (u64)x; break; } case 4: { float x; s >> x; got = bits(x); break; } case 5: { double x; s >> x; got = bits(x); break; } }
			vp_assert(got == val[i], "value read from the socket equals the value sent, however the bytes are fragmented");
		}
		for (int i = 0; i < n; i++) {
			u64 v = val[i];
			switch (kind[i]) { case 0: s << (byte)v; break; case 1: s << (short)v; break; case 2: s << (int)v; break; case 3: s << (Long)v; break; case 4: s << frombits<float>(v); break; case 5: s << frombits<double>(v); break; }
		}
		byte out[48]; int ol = vp_sock_sent(fd, out, 48);
		vp_assert(ol == rl, "socket output is the sum of sizeof(T) bytes");
		for (int i = 0; i < rl && i < ol; i++) vp_assert(out[i] == ref[i], "socket output bytes are the canonical encoding");
	}
	vp_note(rl);
	vp_reach(5);
}
