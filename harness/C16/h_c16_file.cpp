// C16 harness (2): the File stream operators (same contract as StreamBuffer), over the in-memory stdio model
#include <asl/File.h>
#include "vp.h"
using namespace asl;
typedef unsigned long long u64;
static Endian endian_of(int e) { return e == 0 ? ENDIAN_BIG : e == 1 ? ENDIAN_LITTLE : ENDIAN_NATIVE; }
static int ref_put(byte* o, u64 v, int n, bool big) { for (int i = 0; i < n; i++) o[i] = (byte)(v >> (8 * (big ? n - 1 - i : i))); return n; }
template<class T> static T frombits(u64 v) { T x; memcpy(&x, &v, sizeof(T)); return x; }
template<class T> static u64 bits(T x) { u64 v = 0; memcpy(&v, &x, sizeof(T)); return v; }
static const int SIZES[8] = { 1, 2, 2, 4, 4, 8, 4, 8 };   // byte, short, ushort, int, unsigned, Long, float, double

// p0 = number of values, p1 = array element kind appended at the end (-1 none) with p2 elements
extern "C" void h_file_seq(void)
{
	int n = vp_param(0), ak = vp_param(1), alen = vp_param(2);
	int e = vp_concretize(vp_range(0, 2));
	int kind[4]; u64 val[4]; byte ref[128]; int rl = 0;
	{
		File f("s.bin", File::WRITE); f.setEndian(endian_of(e));
		for (int i = 0; i < n; i++) {
			kind[i] = vp_concretize(vp_range(0, 7)); u64 v = nondet_u64(); int sz = SIZES[kind[i]]; if (sz < 8) v &= (1ULL << (8 * sz)) - 1; val[i] = v;
			switch (kind[i]) { case 0: f << (byte)v; break; case 1: f << (short)v; break; case 2: f << (unsigned short)v; break; case 3: f << (int)v; break;
				case 4: f << (unsigned)v; break; case 5: f << (Long)v; break; case 6: f << frombits<float>(v); break; case 7: f << frombits<double>(v); break; }
			rl += ref_put(ref + rl, v, sz, e == 0);
		}
		if (ak == 1) { Array<short> a(alen); for (int i = 0; i < alen; i++) { u64 v = nondet_u16(); a[i] = (short)v; rl += ref_put(ref + rl, v, 2, e == 0); }
			Array<short> keep = a.clone(); f << a; vp_assert(a == keep, "writing an array leaves the caller's array unchanged");
			f << a; for (int i = 0; i < alen; i++) rl += ref_put(ref + rl, (unsigned short)keep[i], 2, e == 0); }      // the same array written a second time
		if (ak == 3) { Array<int> a(alen); for (int i = 0; i < alen; i++) { u64 v = nondet_u32(); a[i] = (int)v; rl += ref_put(ref + rl, v, 4, e == 0); }
			Array<int> keep = a.clone(); f << a; vp_assert(a == keep, "writing an array leaves the caller's array unchanged");
			f << a; for (int i = 0; i < alen; i++) rl += ref_put(ref + rl, (unsigned)keep[i], 4, e == 0); }
	}
	File g("s.bin");
	ByteArray c = g.content();
	vp_assert(c.length() == rl, "file holds the sum of sizeof(T) bytes");
	for (int i = 0; i < rl && i < c.length(); i++) vp_assert(c[i] == ref[i], "file bytes are the canonical encoding");
	File r("s.bin", File::READ); r.setEndian(endian_of(e));
	for (int i = 0; i < n; i++) {
		u64 got = 0;
		switch (kind[i]) { case 0: { byte x; r >> x; got = x; break; } case 1: { short x; r >> x; got = (unsigned short)x; break; } case 2: { unsigned short x; r >> x; got = x; break; }
			case 3: { int x; r >> x; got = (unsigned)x; break; } case 4: { unsigned x; r >> x; got = x; break; } case 5: { Long x; r >> x; got = (u64)x; break; }
			case 6: { float x; r >> x; got = bits(x); break; } case 7: { double x; r >> x; got = bits(x); break; } }
		vp_assert(got == val[i], "value read back from the file equals the value written");
	}
	vp_note(rl);
	vp_reach(4);
}
