GROUPS = [{'name': 'main', 'sources': ['String.cpp'], 'harness': 'h_c16.cpp', 'env': ['vlibc.c']},
          {'name': 'sock', 'sources': ['Socket.cpp', 'String.cpp'], 'harness': 'h_c16_sock.cpp', 'env': ['vlibc.c', 'vsock.c'], 'native_extra': ['vsock.c']},
          {'name': 'file', 'sources': ['File.cpp', 'String.cpp'], 'harness': 'h_c16_file.cpp', 'env': ['vlibc.c', 'vstdio.c']}]


def instances(tier):
    q = tier == 'quick'
    out = []
    for n in ((1, 2) if q else (1, 2, 3)):
        out.append({'entry': 'h_seq', 'params': [n], 'bound': 'every sequence of %d typed values (11 scalar types, arbitrary bit patterns incl. NaN payloads), byte orders BIG/LITTLE/NATIVE, order switched before any element' % n})
    for k in (0, 2, 4, 6, 8, 9):
        for ln in ((0, 1, 3) if q else (0, 1, 2, 3, 5)):
            out.append({'entry': 'h_array', 'params': [k, ln], 'bound': 'arrays of %d elements of kind %d, all bit patterns, all three byte orders' % (ln, k)})
    for n in (1, 3):
        out.append({'entry': 'h_string', 'params': [n], 'bound': 'strings of %d NUL-free bytes' % n})
    for p in ([1, -1, 0], [2, -1, 0], [0, 1, 2], [0, 3, 2], [1, 1, 1]) if q else ([1, -1, 0], [2, -1, 0], [3, -1, 0], [0, 1, 3], [0, 3, 3], [1, 1, 2], [1, 3, 2]):
        out.append({'group': 'file', 'entry': 'h_file_seq', 'params': p, 'bound': 'File operator<< / >>: %d scalar(s) of any of 8 types, then an array (kind %d) of %d elements; all bit patterns, all byte orders' % tuple(p)})
    for p in ([1, 2], [2, 1], [2, 0]) if q else ([1, 3], [2, 1], [2, 2], [2, 0], [3, 1]):
        out.append({'group': 'sock', 'entry': 'h_sock_seq', 'params': p, 'bound': 'Socket operator>> / <<: %d value(s) of 6 scalar types, all bit patterns and byte orders, %s' % (p[0], ('%d read(s) return short at any byte position' % p[1]) if p[1] else 'delivered whole')})
    return out


BOUNDS = {'quick': 'sequences of 1-2 typed scalars with a byte-order switch at any point; arrays of 0,1,3 elements of byte/short/int/Long/float/double; strings of 1 and 3 bytes',
          'thorough': 'sequences of up to 3 scalars; arrays up to 5 elements'}
OUTSIDE = ['sequences longer than 3 values (the property text asks for 64)', 'arrays longer than 5', 'Socket arrays; real sockets (sockets = env/vsock.c)']
ASSUMPTIONS = ['target is little-endian x86-64 (ENDIAN_NATIVE == ENDIAN_LITTLE)']
