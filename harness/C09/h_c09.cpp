// C09 harness: HTTP request reading is total and safe, never yields a path containing "..", and hands over what was sent
#include <asl/Http.h>
#include <asl/Socket.h>
#include "vp.h"
#include "vsock.h"
using namespace asl;

static int put(char* t, int n, const char* s) { int l = (int)strlen(s); memcpy(t + n, s, l); return n + l; }

// p0 = target length: "GET /" + every byte string + " HTTP/1.1\r\n\r\n": the decoded path never contains ".."
extern "C" void h_target(void)
{
	int L = vp_param(0), alpha = vp_param(1);
	char t[80]; int n = 0;
	n = put(t, n, alpha == 3 ? "GET " : "GET /");       // alphabet 3: the target does not start with a slash
	for (int i = 0; i < L; i++) {
		char c = (char)nondet_u8(); vp_assume(c != 0);
		if (alpha == 3) vp_assume(c == '#' || c == '?' || c == '/' || c == 'a' || c == '.' || c == '%' || c == '=');
		if (alpha == 1) vp_assume(c == '.' || c == '/' || c == '%' || c == '2' || c == 'e' || c == 'E' || c == 'f' || c == '5' || c == 'a');
		if (alpha == 2) vp_assume(c == '.' || c == '/' || c == '%' || c == '0' || c == 'a');      // can spell %00
		t[n++] = c;
	}
	n = put(t, n, " HTTP/1.1\r\nHost: h\r\n\r\n");
	int fd = vp_sock_new();
	vp_sock_feed(fd, t, n); vp_sock_peer_close(fd);
	{
		Socket s(fd);
		HttpRequest req(s);
		vp_assert(!req.path().contains(".."), "the decoded request path never contains '..'");
		{ String pth = req.path(); for (int i = 0; i + 1 < pth.length(); i++) vp_assert(!(pth[i] == '.' && pth[i + 1] == '.'), "no '..' anywhere in the bytes of the decoded path (also behind an embedded NUL)"); }
		vp_assert((int)strlen(*req.path()) <= L + 1, "decoded path no longer than the target");
		if (alpha == 3) vp_assert(req.query("a").length() <= L, "the query value is a piece of the target");
		vp_note(req.path().length());
	}
	vp_reach(1);
}

// a complete request with symbolic pieces, cut at a symbolic offset (peer closes early): p0 = framing (0 none, 1 Content-Length, 2 chunked),
// p1 = header-name case variant, p2 = 1: cut anywhere, 0: complete
extern "C" void h_request(void)
{
	int framing = vp_param(0), hcase = vp_param(1), docut = vp_param(2);
	char t[200]; int n = 0;
	bool post = framing != 0;
	n = put(t, n, post ? "POST" : "GET");
	n = put(t, n, " /a%20b/c?k=");
	char qv = (char)nondet_u8(); vp_assume((qv >= 'a' && qv <= 'z') || (qv >= '0' && qv <= '9')); t[n++] = qv;
	n = put(t, n, "&z=1#frag HTTP/1.1\r\n");
	n = put(t, n, hcase == 0 ? "X-Custom-Header: " : hcase == 1 ? "x-custom-header: " : "X-CUSTOM-HEADER: ");
	char hv[3]; for (int i = 0; i < 2; i++) { hv[i] = (char)nondet_u8(); vp_assume(hv[i] > 32 && hv[i] < 127); t[n++] = hv[i]; } hv[2] = 0;
	n = put(t, n, "\r\n");
	byte body[3]; for (int i = 0; i < 3; i++) body[i] = nondet_u8();
	if (framing == 1) { n = put(t, n, "Content-Length: 3\r\n\r\n"); memcpy(t + n, body, 3); n += 3; }
	else if (framing == 2) { n = put(t, n, "Transfer-Encoding: chunked\r\n\r\n2\r\n"); memcpy(t + n, body, 2); n += 2; n = put(t, n, "\r\n1\r\n"); t[n++] = (char)body[2]; n = put(t, n, "\r\n0\r\n\r\n"); }
	else n = put(t, n, "\r\n");
	int cut = docut ? vp_concretize(vp_range(0, n)) : n;
	int fd = vp_sock_new();
	vp_sock_feed(fd, t, cut); vp_sock_peer_close(fd);
	{
		Socket s(fd);
		HttpRequest req(s);
		vp_assert(!req.path().contains(".."), "no '..' in the path");
		if (cut == n) {
			vp_assert(req.method() == (post ? "POST" : "GET"), "method is the one sent");
			vp_assert(req.path() == "/a b/c", "path is percent-decoded");
			char q[2] = { qv, 0 };
			vp_assert(req.query("k") == q && req.query("z") == "1", "query parameters are the ones sent");
			vp_assert(req.header("x-custom-header") == hv && req.header("X-Custom-Header") == hv && req.hasHeader("X-CUSTOM-HEADER"), "headers are looked up case-insensitively");
			if (framing) { vp_assert(req.body().length() == 3, "body length"); for (int i = 0; i < 3 && i < req.body().length(); i++) vp_assert(req.body()[i] == body[i], "body bytes are the ones sent"); }
			else vp_assert(req.body().length() == 0, "no body");
		}
		vp_note(req.body().length());
	}
	vp_reach(2);
}

// query parameters: p0 = 0: value is one raw character ('+' means space), 1: value is "%XY" with symbolic hex digits, 2: the same in the key
extern "C" void h_query(void)
{
	int mode = vp_param(0);
	char t[120]; int n = 0;
	n = put(t, n, "GET /p?a=");
	char exp[2] = { 0, 0 };
	char enc[4]; int el = 0;
	if (mode == 0) {
		char c = (char)nondet_u8();
		vp_assume((c >= 'a' && c <= 'z') || (c >= 'A' && c <= 'Z') || (c >= '0' && c <= '9') || c == '+' || c == '-' || c == '.' || c == '_' || c == '~' || c == '*' || c == '!');
		enc[el++] = c; exp[0] = c == '+' ? ' ' : c;
	} else {
		char h = (char)nondet_u8(), l = (char)nondet_u8();
		vp_assume((h >= '0' && h <= '9') || (h >= 'a' && h <= 'f') || (h >= 'A' && h <= 'F'));
		vp_assume((l >= '0' && l <= '9') || (l >= 'a' && l <= 'f') || (l >= 'A' && l <= 'F'));
		int v = (h <= '9' ? h - '0' : (h | 32) - 'a' + 10) * 16 + (l <= '9' ? l - '0' : (l | 32) - 'a' + 10);
		vp_assume(v != 0);
		enc[el++] = '%'; enc[el++] = h; enc[el++] = l; exp[0] = (char)v;
	}
	if (mode == 2) { n = put(t, n, "1&"); memcpy(t + n, enc, el); n += el; n = put(t, n, "x=2"); }
	else { memcpy(t + n, enc, el); n += el; n = put(t, n, "&b=2"); }
	n = put(t, n, " HTTP/1.1\r\nHost: h\r\n\r\n");
	int fd = vp_sock_new();
	vp_sock_feed(fd, t, n); vp_sock_peer_close(fd);
	{
		Socket s(fd);
		HttpRequest req(s);
		vp_assert(req.path() == "/p", "path without the query");
		if (mode == 2) {
			char key[3] = { exp[0], 'x', 0 };
			vp_assert(req.query("a") == "1", "first parameter");
			vp_assert(req.query(key) == "2", "a percent-encoded key character is decoded to exactly that byte ('%2B' is a plus, not a space)");
		} else {
			vp_assert(req.query("a") == exp, "the query value handed over is the one sent: '+' is a space, %XY is that byte ('%2B' stays a plus)");
			vp_assert(req.query("b") == "2", "second parameter");
		}
		vp_note((byte)exp[0]);
	}
	vp_reach(6);
}

// p0 = length: Url(s) and Url::decode(s) are total and in bounds for every NUL-free s
extern "C" void h_url(void)
{
	int L = vp_param(0), alpha = vp_param(1);
	char* t = (char*)malloc(L + 1);
	for (int i = 0; i < L; i++) { t[i] = (char)nondet_u8(); vp_assume(t[i] != 0); if (alpha) vp_assume(t[i] == ':' || t[i] == '/' || t[i] == '[' || t[i] == ']' || t[i] == '@' || t[i] == '?' || t[i] == '#' || t[i] == '%' || t[i] == '1' || t[i] == 'a'); }
	t[L] = 0;
	String s(t);
	Url u(s);
	vp_assert(u.port >= 0 || u.port < 0, "Url parsed");
	String d = Url::decode(s);
	vp_assert(d.length() <= L, "decode no longer than input");
	vp_note(d.length());
	free(t);
	vp_reach(3);
}

// dispatch: HttpServer::serve(Socket) with a handler that answers with a file; Range header variants (p0) and early close (p1)
#include <asl/HttpServer.h>
#include <asl/File.h>
struct FileSrv : public HttpServer
{
	int served;
	FileSrv() : served(0) {}
	void serve(HttpRequest& req, HttpResponse& resp) { served++; resp.put(File("f.txt")); (void)req; }
};
static const char* const RANGES[8] = { "", "Range: bytes=1-\r\n", "Range: bytes=5\r\n", "Range: bytes=0-2\r\n", "Range: bytes=-2\r\n", "Range: bytes=a-b\r\n", "Range: bytes=1-2,3-4\r\n", "Range: bytes=2-1\r\n" };
extern "C" void h_serve(void)
{
	int rk = vp_param(0), docut = vp_param(1);
	{ File f("f.txt", File::WRITE); f.write("0123456789", 10); }
	char t[200]; int n = 0;
	n = put(t, n, "GET /f.txt HTTP/1.1\r\nHost: h\r\n");
	n = put(t, n, RANGES[rk]);
	char c = (char)nondet_u8(); vp_assume(c > 32 && c < 127 && c != ':');
	n = put(t, n, "X-A: "); t[n++] = c; n = put(t, n, "\r\n\r\n");
	int cut = docut ? vp_concretize(vp_range(0, n)) : n;
	int fd = vp_sock_new();
	vp_sock_feed(fd, t, cut); vp_sock_peer_close(fd);
	{
		FileSrv srv;
		SocketServer* base = &srv;
		Socket s(fd);
		base->serve(s);
		vp_assert(srv.served <= 1, "the handler is invoked at most once per request");
		if (cut == n) vp_assert(srv.served == 1, "a complete request is dispatched");
		byte out[600]; int ol = vp_sock_sent(fd, out, 600);
		if (cut == n) vp_assert(ol > 12 && memcmp(out, "HTTP/1.1 ", 9) == 0, "a response is written for a complete request");
		vp_note(ol);
	}
	vp_reach(4);
}

#include <sys/stat.h>
// static file server rooted at "root": whatever the target, the content of a file outside the root is never served.
// p0 = template, p1/p2 = window of positions replaced by arbitrary characters from { . / % 2 5 e }
static const char* const FS_TPL[] = { "/in.txt", "/../secret.txt", "/%2e%2e/secret.txt", "/%252e%252e/secret.txt", "/.%252e/secret.txt", "/sub/../../secret.txt", "/%2e%2e%2fsecret.txt", "/..%252fsecret.txt" };
extern "C" void h_fileserver(void)
{
	int tpl = vp_param(0), pos = vp_param(1), cnt = vp_param(2);
	if (!vp_symbolic_run()) mkdir("root", 0755);      // natively the files are real (in the replay's scratch directory)
	{ File f("root/in.txt", File::WRITE); f.write("INSIDE", 6); }
	{ File f("secret.txt", File::WRITE); f.write("OUTSIDE", 7); }
	char t[120]; int n = 0;
	n = put(t, n, "GET ");
	int t0 = n;
	n = put(t, n, FS_TPL[tpl]);
	for (int i = pos; i < pos + cnt && t0 + i < n; i++) { char c = (char)nondet_u8(); vp_assume(c == '.' || c == '/' || c == '%' || c == '2' || c == '5' || c == 'e'); t[t0 + i] = c; }
	n = put(t, n, " HTTP/1.1\r\nHost: h\r\nConnection: close\r\n\r\n");
	int fd = vp_sock_new();
	vp_sock_feed(fd, t, n); vp_sock_peer_close(fd);
	{
		HttpServer srv;
		srv.setRoot("root");
		SocketServer* base = &srv;
		Socket s(fd);
		base->serve(s);
	}
	static byte out[800]; int ol = vp_sock_sent(fd, out, 800);
	bool leaked = false;
	for (int i = 0; i + 7 <= ol && i + 7 <= 800; i++) if (!memcmp(out + i, "OUTSIDE", 7)) leaked = true;
	vp_assert(!leaked, "a file server rooted at a directory never serves a file outside it");
	if (cnt == 0 && tpl == 0) { bool ok = false; for (int i = 0; i + 6 <= ol; i++) if (!memcmp(out + i, "INSIDE", 6)) ok = true; vp_assert(ok, "a file inside the root is served"); }
	vp_note(ol > 0);
	vp_reach(7);
}

