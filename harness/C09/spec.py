SOURCES = ['Http.cpp', 'HttpServer.cpp', 'SocketServer.cpp', 'Socket.cpp', 'File.cpp', 'TextFile.cpp', 'Date.cpp', 'Xdl.cpp', 'Var.cpp', 'Path.cpp', 'String.cpp', 'unicodedata.cpp', 'util.cpp', 'WebSocket.cpp', 'SHA1.cpp']
HARNESS = 'h_c09.cpp'
ENV = ['vlibc.c', 'vsock.c', 'vstdio.c']
NATIVE_EXTRA = ['vsock.c']


def instances(tier):
    q = tier == 'quick'
    out = []
    for L in ((0, 1, 2) if q else (0, 1, 2, 3)):
        out.append({'entry': 'h_target', 'params': [L, 0], 'bound': 'request target "/" + every NUL-free byte string of length %d' % L})
    for L in ((4,) if q else (4, 5, 6)):
        out.append({'entry': 'h_target', 'params': [L, 1], 'bound': 'request target "/" + every string of length %d over { . / %% 2 e E f 5 a }' % L})
    for L in ((5,) if q else (5, 6)):
        out.append({'entry': 'h_target', 'params': [L, 2], 'bound': 'request target "/" + every string of length %d over { . / %% 0 a } (can spell %%00 and broken escapes)' % L})
    for L in ((1, 2, 3, 4) if q else (1, 2, 3, 4, 5, 6)):
        out.append({'entry': 'h_target', 'params': [L, 3], 'bound': 'request target (no leading slash) = every string of length %d over { # ? / a . %% = }' % L})
    for fr in (0, 1, 2):
        for hc in (0, 1, 2):
            out.append({'entry': 'h_request', 'params': [fr, hc, 0], 'bound': 'complete request (framing %d, header-name case %d) with symbolic query value, header value and body bytes' % (fr, hc)})
        out.append({'entry': 'h_request', 'params': [fr, 1, 1], 'bound': 'the same request cut at every byte offset (peer closes early), framing %d' % fr})
    FS = ['/in.txt', '/../secret.txt', '/%2e%2e/secret.txt', '/%252e%252e/secret.txt', '/.%252e/secret.txt', '/sub/../../secret.txt', '/%2e%2e%2fsecret.txt', '/..%252fsecret.txt']
    for ti, t in enumerate(FS):
        out.append({'entry': 'h_fileserver', 'params': [ti, 0, 0], 'bound': 'file server rooted at a directory, target %s' % t})
        if ti == 0: continue
        for pos in range(1, len(t) - 11, 2 if q else 1):
            out.append({'entry': 'h_fileserver', 'params': [ti, pos, 2], 'bound': 'file server, target %s with characters %d..%d arbitrary from { . / %% 2 5 e }' % (t, pos, pos + 1)})
    for mode in (0, 1, 2):
        out.append({'entry': 'h_query', 'params': [mode], 'bound': 'query parameter with %s' % ('one raw symbolic character (plus means space)', 'a percent-encoded value byte, every pair of hex digits', 'a percent-encoded key byte, every pair of hex digits')[mode]})
    for L in ((0, 1, 2) if q else (0, 1, 2, 3)):
        out.append({'entry': 'h_url', 'params': [L, 0], 'bound': 'Url(s), Url::decode(s) for every NUL-free s of length %d' % L})
    for L in ((4,) if q else (4, 5, 6)):
        out.append({'entry': 'h_url', 'params': [L, 1], 'bound': 'Url(s), Url::decode(s) for every s of length %d over URL metacharacters' % L})
    for rk in range(8):
        out.append({'entry': 'h_serve', 'params': [rk, 0], 'bound': 'HttpServer dispatch of a file response, Range header variant %d, symbolic extra header byte' % rk})
    out.append({'entry': 'h_serve', 'params': [1, 1], 'bound': 'dispatch with the request cut at every byte offset'})
    return out


BOUNDS = {'quick': 'request targets: every byte string up to length 2, every string up to length 4 over { . / % 2 e E f 5 a }; complete requests with Content-Length / chunked / no body and the same cut at every offset; URL strings to length 2 (4 over metacharacters); HttpServer dispatch with 8 Range variants',
          'thorough': 'targets to length 3 / 6, URLs to 3 / 6'}
OUTSIDE = ['targets longer than 8', 'bodies longer than 3 bytes', 'real sockets and timeouts (sockets = env/vsock.c, clock = engine stub)', 'concurrent connections']
ASSUMPTIONS = ['sockets = env/vsock.c; files = env/vstdio.c; clock advances 1 s per query']
